// mkreplay builds an "expect" replay file for an expression and a JSON
// document: the expected outcome is computed by the reference model.
//
//	go run ./cmd/mkreplay <property> <check> <expr> <doc-json> [out.json]
package main

import (
	"encoding/json"
	"fmt"
	"os"

	"verif/harness/ast"
	"verif/harness/jv"
	"verif/harness/model"
	"verif/harness/run"
)

func main() {
	if len(os.Args) < 5 {
		fmt.Fprintln(os.Stderr, "usage: mkreplay <property> <check> <expr> <doc-json> [out.json]")
		os.Exit(2)
	}
	prop, check, expr, docText := os.Args[1], os.Args[2], os.Args[3], os.Args[4]
	doc, err := jv.ParseJSON(docText)
	if err != nil {
		fmt.Fprintln(os.Stderr, "bad doc:", err)
		os.Exit(2)
	}
	pr := ast.Parse(expr)
	node := run.FromVal(doc)
	r := run.Replay{Property: prop, Check: check, Kind: "expect", Calls: []run.Call{{API: "search", Expr: expr, Doc: &node}, {API: "expr-search", Expr: expr, Doc: &node}}}
	switch pr.Verdict {
	case ast.Out:
		r.Expect = &run.Expect{Errors: []string{"syntax"}}
	case ast.Undet:
		fmt.Fprintln(os.Stderr, "reference parser: undetermined:", pr.Reason)
		os.Exit(1)
	default:
		res, _ := model.Eval(pr.Expr, doc)
		if res.Undet != "" {
			fmt.Fprintln(os.Stderr, "model: undetermined:", res.Undet)
			os.Exit(1)
		}
		if res.Err != 0 {
			r.Expect = &run.Expect{Errors: res.Err.Names()}
		} else {
			r.Expect = &run.Expect{Value: &run.EncVal{V: res.V}}
		}
	}
	o := run.Search(expr, node.Build())
	r.Message = "library now: " + o.String()
	b, _ := json.MarshalIndent(r, "", " ")
	if len(os.Args) > 5 {
		if err := os.WriteFile(os.Args[5], b, 0o644); err != nil {
			fmt.Fprintln(os.Stderr, err)
			os.Exit(2)
		}
	}
	exp, _ := json.Marshal(r.Expect)
	fmt.Printf("expect %s\n%s\n", exp, r.Message)
}
