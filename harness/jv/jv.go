// Package jv is the harness's own JSON value model: exact decimals, sorted
// object members, arrays that may be flagged "unordered" (their element order
// is not determined by the specification, e.g. the result of `*` on an object).
package jv

import (
	"encoding/json"
	"fmt"
	"math"
	"math/big"
	"reflect"
	"sort"
	"strconv"
	"strings"
	"unicode/utf8"

	"github.com/woodsbury/decimal128"
)

type Kind uint8

const (
	Null Kind = iota
	Bool
	Num
	Str
	Arr
	Obj
)

func (k Kind) String() string {
	switch k {
	case Null:
		return "null"
	case Bool:
		return "boolean"
	case Num:
		return "number"
	case Str:
		return "string"
	case Arr:
		return "array"
	case Obj:
		return "object"
	}
	return "?"
}

type Member struct {
	K string
	V Val
}

// Val is an immutable JSON value.
type Val struct {
	K Kind
	B bool
	// R is the exact value of a number, T the spelling it was written with
	// (a JSON number text; may be empty for computed numbers).
	R *big.Rat
	T string
	S string
	A []Val
	O []Member // sorted by key, keys unique
	// Unordered marks an array whose element order the specification leaves
	// open (enumeration of object members).
	Unordered bool
}

// JSONOf in the T field of a Str marks a string of which only the JSON value
// it denotes is pinned (to_string of a non-string).
const JSONOf = "json-of"

// HasLoose reports whether v contains a JSONOf-marked string.
func HasLoose(v Val) bool {
	switch v.K {
	case Str:
		return v.T == JSONOf
	case Arr:
		for _, e := range v.A {
			if HasLoose(e) {
				return true
			}
		}
	case Obj:
		for _, m := range v.O {
			if HasLoose(m.V) {
				return true
			}
		}
	}
	return false
}

func VNull() Val          { return Val{K: Null} }
func VBool(b bool) Val    { return Val{K: Bool, B: b} }
func VStr(s string) Val   { return Val{K: Str, S: s} }
func VArr(a []Val) Val    { return Val{K: Arr, A: a} }
func VInt(i int64) Val    { return Val{K: Num, R: new(big.Rat).SetInt64(i), T: strconv.FormatInt(i, 10)} }
func VRat(r *big.Rat) Val { return Val{K: Num, R: r, T: RatText(r)} }

func VUArr(a []Val) Val { return Val{K: Arr, A: a, Unordered: true} }

// VObj builds an object; later duplicates win; members are sorted.
func VObj(ms []Member) Val {
	m := make(map[string]Val, len(ms))
	for _, x := range ms {
		m[x.K] = x.V
	}
	out := make([]Member, 0, len(m))
	for k, v := range m {
		out = append(out, Member{k, v})
	}
	sort.Slice(out, func(i, j int) bool { return out[i].K < out[j].K })
	return Val{K: Obj, O: out}
}

func (v Val) Get(key string) (Val, bool) {
	if v.K != Obj {
		return Val{}, false
	}
	i := sort.Search(len(v.O), func(i int) bool { return v.O[i].K >= key })
	if i < len(v.O) && v.O[i].K == key {
		return v.O[i].V, true
	}
	return Val{}, false
}

func (v Val) IsNull() bool { return v.K == Null }

// Truthy implements the five-falsy-values rule.
func (v Val) Truthy() bool {
	switch v.K {
	case Null:
		return false
	case Bool:
		return v.B
	case Str:
		return v.S != ""
	case Arr:
		return len(v.A) > 0
	case Obj:
		return len(v.O) > 0
	}
	return true
}

// ParseNum parses a JSON number text (RFC 8259 grammar, leniently also
// accepting a leading '+') into an exact rational. ok=false if not a number
// or if the exponent is absurdly large (|exp| > 100000).
func ParseNum(s string) (*big.Rat, bool) {
	t := s
	neg := false
	if len(t) > 0 && (t[0] == '-' || t[0] == '+') {
		neg = t[0] == '-'
		t = t[1:]
	}
	if t == "" {
		return nil, false
	}
	mant := t
	exp := 0
	if i := strings.IndexAny(t, "eE"); i >= 0 {
		mant = t[:i]
		et := t[i+1:]
		e, err := strconv.Atoi(et)
		if err != nil || e > 100000 || e < -100000 {
			// zero stays zero whatever the exponent says (0E100001, 0e-99999999999)
			if zeroMantissa(mant) && exponentSyntax(et) {
				return new(big.Rat), true
			}
			return nil, false
		}
		if len(et) == 0 {
			return nil, false
		}
		exp = e
	}
	intp, frac := mant, ""
	if i := strings.IndexByte(mant, '.'); i >= 0 {
		intp, frac = mant[:i], mant[i+1:]
		if frac == "" {
			return nil, false
		}
	}
	if intp == "" {
		return nil, false
	}
	for _, c := range intp + frac {
		if c < '0' || c > '9' {
			return nil, false
		}
	}
	n, ok := new(big.Int).SetString(intp+frac, 10)
	if !ok {
		return nil, false
	}
	exp -= len(frac)
	r := new(big.Rat).SetInt(n)
	if exp > 0 {
		r.Mul(r, new(big.Rat).SetInt(new(big.Int).Exp(big.NewInt(10), big.NewInt(int64(exp)), nil)))
	} else if exp < 0 {
		r.Quo(r, new(big.Rat).SetInt(new(big.Int).Exp(big.NewInt(10), big.NewInt(int64(-exp)), nil)))
	}
	if neg {
		r.Neg(r)
	}
	return r, true
}

// IsJSONNumber reports whether s matches the RFC 8259 number grammar exactly.
func IsJSONNumber(s string) bool {
	i := 0
	n := len(s)
	if i < n && s[i] == '-' {
		i++
	}
	if i >= n {
		return false
	}
	if s[i] == '0' {
		i++
	} else if s[i] >= '1' && s[i] <= '9' {
		for i < n && s[i] >= '0' && s[i] <= '9' {
			i++
		}
	} else {
		return false
	}
	if i < n && s[i] == '.' {
		i++
		j := i
		for i < n && s[i] >= '0' && s[i] <= '9' {
			i++
		}
		if i == j {
			return false
		}
	}
	if i < n && (s[i] == 'e' || s[i] == 'E') {
		i++
		if i < n && (s[i] == '+' || s[i] == '-') {
			i++
		}
		j := i
		for i < n && s[i] >= '0' && s[i] <= '9' {
			i++
		}
		if i == j {
			return false
		}
	}
	return i == n
}

// VNumText builds a number from JSON text; panics if malformed (harness bug).
func VNumText(s string) Val {
	r, ok := ParseNum(s)
	if !ok {
		panic("jv: bad number text " + strconv.Quote(s))
	}
	return Val{K: Num, R: r, T: s}
}

func zeroMantissa(m string) bool {
	digits := 0
	dots := 0
	for i := 0; i < len(m); i++ {
		switch {
		case m[i] == '0':
			digits++
		case m[i] == '.':
			dots++
		default:
			return false
		}
	}
	return digits > 0 && dots <= 1 && !strings.HasPrefix(m, ".") && !strings.HasSuffix(m, ".")
}

func exponentSyntax(e string) bool {
	if len(e) > 0 && (e[0] == '+' || e[0] == '-') {
		e = e[1:]
	}
	if e == "" {
		return false
	}
	for i := 0; i < len(e); i++ {
		if e[i] < '0' || e[i] > '9' {
			return false
		}
	}
	return true
}

// RatText renders an exact rational as a JSON number if it is a terminating
// decimal, else as a 40-digit approximation (only used for display).
func RatText(r *big.Rat) string {
	if r.IsInt() {
		return r.Num().String()
	}
	// terminating iff denominator = 2^a 5^b
	if a, b, ok := pow2pow5(r.Denom()); ok {
		n := a
		if b > n {
			n = b
		}
		return r.FloatString(n)
	}
	return r.FloatString(40)
}

// pow2pow5 writes d as 2^a 5^b if it has that form. It avoids dividing
// repeatedly (quadratic for denominators like 10^100000): the power of two
// is the number of trailing zero bits, the power of five is estimated from
// the bit length and confirmed by one exponentiation.
func pow2pow5(d *big.Int) (a, b int, ok bool) {
	if d.Sign() <= 0 {
		return 0, 0, false
	}
	a = int(d.TrailingZeroBits())
	m := new(big.Int).Rsh(d, uint(a))
	if m.IsInt64() && m.Int64() == 1 {
		return a, 0, true
	}
	est := int(float64(m.BitLen()-1)/2.321928094887362 + 0.5)
	for _, c := range []int{est, est - 1, est + 1} {
		if c < 1 {
			continue
		}
		if new(big.Int).Exp(big.NewInt(5), big.NewInt(int64(c)), nil).Cmp(m) == 0 {
			return a, c, true
		}
	}
	return 0, 0, false
}

// SigDigits returns the number of significant decimal digits of a terminating
// decimal r and the exponent of its last digit; ok=false if r is not a
// terminating decimal.
func SigDigits(r *big.Rat) (digits int, ok bool) {
	if r.Sign() == 0 {
		return 1, true
	}
	t := RatText(r)
	if !r.IsInt() {
		if _, _, ok := pow2pow5(r.Denom()); !ok {
			return 0, false
		}
	}
	t = strings.TrimPrefix(t, "-")
	t = strings.Replace(t, ".", "", 1)
	t = strings.TrimLeft(t, "0")
	t = strings.TrimRight(t, "0")
	if t == "" {
		return 1, true
	}
	return len(t), true
}

// Equal is deep equality: numbers by value, objects by key set, arrays
// positionally — except arrays flagged Unordered on either side, which are
// compared as multisets.
func Equal(a, b Val) bool {
	if a.K != b.K {
		return false
	}
	switch a.K {
	case Null:
		return true
	case Bool:
		return a.B == b.B
	case Num:
		return a.R.Cmp(b.R) == 0
	case Str:
		if a.T == JSONOf || b.T == JSONOf {
			// the model only pins the JSON value the string denotes
			x, err1 := ParseJSON(a.S)
			y, err2 := ParseJSON(b.S)
			return err1 == nil && err2 == nil && Equal(x, y)
		}
		return a.S == b.S
	case Arr:
		if len(a.A) != len(b.A) {
			return false
		}
		if a.Unordered || b.Unordered {
			// greedy matching; Equal restricted to the classes induced by the
			// flags behaves like an equivalence, so greedy is complete.
			used := make([]bool, len(b.A))
			for i := range a.A {
				found := false
				for j := range b.A {
					if !used[j] && Equal(a.A[i], b.A[j]) {
						used[j] = true
						found = true
						break
					}
				}
				if !found {
					return false
				}
			}
			return true
		}
		for i := range a.A {
			if !Equal(a.A[i], b.A[i]) {
				return false
			}
		}
		return true
	case Obj:
		if len(a.O) != len(b.O) {
			return false
		}
		for i := range a.O {
			if a.O[i].K != b.O[i].K || !Equal(a.O[i].V, b.O[i].V) {
				return false
			}
		}
		return true
	}
	return false
}

// StrictEqual is positional deep equality (no multiset treatment).
func StrictEqual(a, b Val) bool {
	return Canon(a, false) == Canon(b, false)
}

// Canon renders a canonical string: numbers as reduced fractions, members
// sorted. With sortUnordered, every array nested anywhere is rendered with its
// elements sorted (used for multiset comparison, where nested unordered arrays
// must also compare as multisets).
func Canon(v Val, sortAll bool) string {
	var b strings.Builder
	canon(&b, v, sortAll)
	return b.String()
}

func canon(b *strings.Builder, v Val, sortAll bool) {
	switch v.K {
	case Null:
		b.WriteString("null")
	case Bool:
		if v.B {
			b.WriteString("true")
		} else {
			b.WriteString("false")
		}
	case Num:
		b.WriteString("#")
		b.WriteString(v.R.RatString())
	case Str:
		b.WriteString(strconv.Quote(v.S))
	case Arr:
		b.WriteByte('[')
		if sortAll {
			parts := make([]string, len(v.A))
			for i, e := range v.A {
				parts[i] = Canon(e, true)
			}
			sort.Strings(parts)
			b.WriteString(strings.Join(parts, ","))
		} else {
			for i, e := range v.A {
				if i > 0 {
					b.WriteByte(',')
				}
				canon(b, e, sortAll)
			}
		}
		b.WriteByte(']')
	case Obj:
		b.WriteByte('{')
		for i, m := range v.O {
			if i > 0 {
				b.WriteByte(',')
			}
			b.WriteString(strconv.Quote(m.K))
			b.WriteByte(':')
			canon(b, m.V, sortAll)
		}
		b.WriteByte('}')
	}
}

// JSON renders the value as JSON text (numbers with their spelling when known).
func (v Val) JSON() string {
	var b strings.Builder
	v.writeJSON(&b)
	return b.String()
}

func quoteJSON(s string) string {
	bs, _ := json.Marshal(s)
	// json.Marshal escapes <,>,& as < etc. which is still valid JSON.
	return string(bs)
}

func (v Val) writeJSON(b *strings.Builder) {
	switch v.K {
	case Null:
		b.WriteString("null")
	case Bool:
		if v.B {
			b.WriteString("true")
		} else {
			b.WriteString("false")
		}
	case Num:
		if v.T != "" {
			b.WriteString(v.T)
		} else {
			b.WriteString(RatText(v.R))
		}
	case Str:
		b.WriteString(quoteJSON(v.S))
	case Arr:
		b.WriteByte('[')
		for i, e := range v.A {
			if i > 0 {
				b.WriteByte(',')
			}
			e.writeJSON(b)
		}
		b.WriteByte(']')
	case Obj:
		b.WriteByte('{')
		for i, m := range v.O {
			if i > 0 {
				b.WriteByte(',')
			}
			b.WriteString(quoteJSON(m.K))
			b.WriteByte(':')
			m.V.writeJSON(b)
		}
		b.WriteByte('}')
	}
}

func (v Val) String() string { return v.JSON() }

// ParseJSON parses RFC 8259 text with exact numbers. Duplicate keys: last wins.
func ParseJSON(s string) (Val, error) {
	d := json.NewDecoder(strings.NewReader(s))
	d.UseNumber()
	var a any
	if err := d.Decode(&a); err != nil {
		return Val{}, err
	}
	if d.More() {
		return Val{}, fmt.Errorf("trailing data")
	}
	if _, err := d.Token(); err == nil {
		return Val{}, fmt.Errorf("trailing data")
	}
	v, info := FromGo(a)
	if info.Foreign != "" {
		return Val{}, fmt.Errorf("foreign %s", info.Foreign)
	}
	return v, nil
}

// Info describes non-JSON aspects of a Go value met by FromGo.
type Info struct {
	NilSlice   bool   // a nil []any somewhere (serialises as null)
	NilMap     bool   // a nil map[string]any somewhere
	Foreign    string // first Go type outside the allowed result kinds
	BadNumber  string // NaN/Inf/unparseable number met
	HugeNumber string // a well-formed number text with an exponent beyond +-100000 (not judged)
	BadUTF8    bool   // some string is not valid UTF-8
	NumKinds   map[string]int
	path       map[uintptr]bool // containers on the current recursion path (cycle detection)
}

// FromGo normalises a Go value of the kinds the library accepts/returns.
func FromGo(x any) (Val, Info) {
	var info Info
	v := fromGo(x, &info, 0)
	return v, info
}

// maxDepth bounds the recursion over Go data: a result that is deeper (in
// particular a cyclic one, which no JSON value is) is reported as foreign
// instead of overflowing the harness's own stack.
const maxDepth = 20000

// enter records a container on the recursion path; true = already there (cycle).
func (info *Info) enter(p uintptr) bool {
	if info.path == nil {
		info.path = map[uintptr]bool{}
	}
	if info.path[p] {
		if info.Foreign == "" {
			info.Foreign = "cyclic value"
		}
		return true
	}
	info.path[p] = true
	return false
}

func (info *Info) leave(p uintptr) { delete(info.path, p) }

func noteKind(info *Info, k string) {
	if info.NumKinds == nil {
		info.NumKinds = map[string]int{}
	}
	info.NumKinds[k]++
}

func fromGo(x any, info *Info, depth int) Val {
	if depth > maxDepth {
		if info.Foreign == "" {
			info.Foreign = "cyclic or excessively deep value"
		}
		return VNull()
	}
	switch x := x.(type) {
	case nil:
		return VNull()
	case bool:
		return VBool(x)
	case string:
		if !utf8.ValidString(x) {
			info.BadUTF8 = true
		}
		return VStr(x)
	case json.Number:
		noteKind(info, "json.Number")
		r, ok := ParseNum(string(x))
		if !ok {
			if IsJSONNumber(string(x)) {
				// a well-formed number whose exponent is beyond what the harness
				// holds exactly (1E100001): not judged
				info.HugeNumber = string(x)
			} else {
				info.BadNumber = "json.Number(" + strconv.Quote(string(x)) + ")"
			}
			return VNull()
		}
		return Val{K: Num, R: r, T: string(x)}
	case decimal128.Decimal:
		noteKind(info, "decimal")
		if x.IsNaN() || x.IsInf(0) {
			info.BadNumber = "decimal " + x.String()
			return VNull()
		}
		r := x.Rat(nil)
		return Val{K: Num, R: r, T: x.String()}
	case float64:
		noteKind(info, "float64")
		return floatVal(x, info)
	case float32:
		noteKind(info, "float32")
		return floatVal(float64(x), info)
	case int:
		noteKind(info, "int")
		return VInt(int64(x))
	case int8:
		noteKind(info, "int8")
		return VInt(int64(x))
	case int16:
		noteKind(info, "int16")
		return VInt(int64(x))
	case int32:
		noteKind(info, "int32")
		return VInt(int64(x))
	case int64:
		noteKind(info, "int64")
		return VInt(x)
	case uint:
		noteKind(info, "uint")
		return uintVal(uint64(x))
	case uint8:
		noteKind(info, "uint8")
		return uintVal(uint64(x))
	case uint16:
		noteKind(info, "uint16")
		return uintVal(uint64(x))
	case uint32:
		noteKind(info, "uint32")
		return uintVal(uint64(x))
	case uint64:
		noteKind(info, "uint64")
		return uintVal(x)
	case []any:
		if x == nil {
			info.NilSlice = true
		}
		if len(x) > 0 {
			p := reflect.ValueOf(x).Pointer()
			if info.enter(p) {
				return VNull()
			}
			defer info.leave(p)
		}
		a := make([]Val, len(x))
		for i, e := range x {
			a[i] = fromGo(e, info, depth+1)
		}
		return VArr(a)
	case map[string]any:
		if x == nil {
			info.NilMap = true
		}
		if len(x) > 0 {
			p := reflect.ValueOf(x).Pointer()
			if info.enter(p) {
				return VNull()
			}
			defer info.leave(p)
		}
		ms := make([]Member, 0, len(x))
		for k, e := range x {
			if !utf8.ValidString(k) {
				info.BadUTF8 = true
			}
			ms = append(ms, Member{k, fromGo(e, info, depth+1)})
		}
		return VObj(ms)
	}
	if info.Foreign == "" {
		info.Foreign = reflect.TypeOf(x).String()
	}
	return VNull()
}

func uintVal(u uint64) Val {
	r := new(big.Rat).SetInt(new(big.Int).SetUint64(u))
	return Val{K: Num, R: r, T: strconv.FormatUint(u, 10)}
}

func floatVal(f float64, info *Info) Val {
	if math.IsNaN(f) || math.IsInf(f, 0) {
		info.BadNumber = fmt.Sprint("float ", f)
		return VNull()
	}
	r := new(big.Rat)
	r.SetFloat64(f)
	return Val{K: Num, R: r, T: ""}
}

// ToGo converts to the Go representation handed to the library: []any,
// map[string]any, json.Number for numbers (using the spelling).
func ToGo(v Val) any {
	switch v.K {
	case Null:
		return nil
	case Bool:
		return v.B
	case Num:
		t := v.T
		if t == "" {
			t = RatText(v.R)
		}
		return json.Number(t)
	case Str:
		return v.S
	case Arr:
		a := make([]any, len(v.A))
		for i, e := range v.A {
			a[i] = ToGo(e)
		}
		return a
	case Obj:
		m := make(map[string]any, len(v.O))
		for _, e := range v.O {
			m[e.K] = ToGo(e.V)
		}
		return m
	}
	return nil
}

// Size is the node count of the value (strings count their code points).
func Size(v Val) int {
	switch v.K {
	case Str:
		return 1 + utf8.RuneCountInString(v.S)
	case Arr:
		n := 1
		for _, e := range v.A {
			n += Size(e)
		}
		return n
	case Obj:
		n := 1
		for _, m := range v.O {
			n += 1 + Size(m.V)
		}
		return n
	}
	return 1
}

// HasUnordered reports whether any array in v is flagged Unordered with >= 2
// distinct elements.
func HasUnordered(v Val) bool {
	switch v.K {
	case Arr:
		if v.Unordered && len(v.A) >= 2 {
			first := Canon(v.A[0], true)
			for _, e := range v.A[1:] {
				if Canon(e, true) != first {
					return true
				}
			}
		}
		for _, e := range v.A {
			if HasUnordered(e) {
				return true
			}
		}
	case Obj:
		for _, m := range v.O {
			if HasUnordered(m.V) {
				return true
			}
		}
	}
	return false
}

// Ordered returns a copy with the Unordered flag cleared at top level only.
func (v Val) Ordered() Val {
	v.Unordered = false
	return v
}

// MustParseJSON is ParseJSON for constants.
func MustParseJSON(s string) Val {
	v, err := ParseJSON(s)
	if err != nil {
		panic("jv: bad JSON constant " + strconv.Quote(s) + ": " + err.Error())
	}
	return v
}
