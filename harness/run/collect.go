package run

import (
	"encoding/binary"
	"encoding/json"
	"fmt"
	"hash/fnv"
	"math/big"
	"os"
	"path/filepath"
	"sort"
	"strconv"
	"sync"

	"verif/harness/jv"
)

// Call is one library call of a replay.
type Call struct {
	API  string `json:"api"` // search | compile | expr-search
	Expr string `json:"expr"`
	Doc  *Node  `json:"doc,omitempty"`
}

// Expect is the expected outcome of an "expect" replay.
type Expect struct {
	Value  *EncVal  `json:"value,omitempty"`
	Errors []string `json:"errors,omitempty"`
}

// Replay is the plain-data reproduction of one failing case.
type Replay struct {
	Property string `json:"property"`
	Check    string `json:"check"`
	// Kind: expect (call 0 must give Expect), same (all calls must give the
	// same outcome; Loose = compare arrays as multisets), nopanic, custom:<name>
	Kind    string          `json:"kind"`
	Calls   []Call          `json:"calls"`
	Expect  *Expect         `json:"expect,omitempty"`
	Loose   bool            `json:"loose,omitempty"`
	Extra   json.RawMessage `json:"extra,omitempty"`
	Message string          `json:"message"`
	Seed    uint64          `json:"seed"`
	Shard   int             `json:"shard"`
}

// EncVal is the JSON encoding of a jv.Val that keeps the Unordered and JSONOf
// marks and exact number spellings.
type EncVal struct {
	V jv.Val
}

func encVal(v jv.Val) any {
	switch v.K {
	case jv.Null:
		return nil
	case jv.Bool:
		return v.B
	case jv.Num:
		t := v.T
		if t == "" || !jv.IsJSONNumber(t) {
			t = v.R.RatString()
		}
		return map[string]any{"\x01num": t}
	case jv.Str:
		if v.T == jv.JSONOf {
			return map[string]any{"\x01jsonof": v.S}
		}
		return v.S
	case jv.Arr:
		a := make([]any, len(v.A))
		for i, e := range v.A {
			a[i] = encVal(e)
		}
		if v.Unordered {
			return map[string]any{"\x01unordered": a}
		}
		return a
	case jv.Obj:
		m := map[string]any{}
		for _, e := range v.O {
			m[e.K] = encVal(e.V)
		}
		return map[string]any{"\x01obj": m}
	}
	return nil
}

func decVal(x any) (jv.Val, error) {
	switch x := x.(type) {
	case nil:
		return jv.VNull(), nil
	case bool:
		return jv.VBool(x), nil
	case string:
		return jv.VStr(x), nil
	case []any:
		a := make([]jv.Val, len(x))
		for i, e := range x {
			v, err := decVal(e)
			if err != nil {
				return jv.Val{}, err
			}
			a[i] = v
		}
		return jv.VArr(a), nil
	case map[string]any:
		if t, ok := x["\x01num"]; ok {
			s, _ := t.(string)
			if r, ok := jv.ParseNum(s); ok {
				return jv.Val{K: jv.Num, R: r, T: s}, nil
			}
			r, ok := newRat(s)
			if !ok {
				return jv.Val{}, fmt.Errorf("bad number %q", s)
			}
			return jv.VRat(r), nil
		}
		if t, ok := x["\x01jsonof"]; ok {
			s, _ := t.(string)
			return jv.Val{K: jv.Str, S: s, T: jv.JSONOf}, nil
		}
		if t, ok := x["\x01unordered"]; ok {
			v, err := decVal(t)
			if err != nil {
				return jv.Val{}, err
			}
			v.Unordered = true
			return v, nil
		}
		if t, ok := x["\x01obj"]; ok {
			m, _ := t.(map[string]any)
			ms := make([]jv.Member, 0, len(m))
			for k, e := range m {
				v, err := decVal(e)
				if err != nil {
					return jv.Val{}, err
				}
				ms = append(ms, jv.Member{K: k, V: v})
			}
			return jv.VObj(ms), nil
		}
	}
	return jv.Val{}, fmt.Errorf("bad encoded value %T", x)
}

func newRat(s string) (*big.Rat, bool) { return new(big.Rat).SetString(s) }

func (e EncVal) MarshalJSON() ([]byte, error) { return json.Marshal(encVal(e.V)) }
func (e *EncVal) UnmarshalJSON(b []byte) error {
	var x any
	if err := json.Unmarshal(b, &x); err != nil {
		return err
	}
	v, err := decVal(x)
	e.V = v
	return err
}

// Collector gathers what a shard explored.
type Collector struct {
	mu         sync.Mutex
	Property   string
	Check      string
	evals      int64
	nontrivial map[uint64]struct{}
	labels     map[string]int64
	skipped    map[string]int64
	excluded   map[string]int64
	samples    map[uint64]any // keep the K smallest hashes: deterministic, uniform
	violations []Violation
	vioSeen    map[string]bool
	extra      map[string]any
}

type Violation struct {
	Check   string `json:"check"`
	Message string `json:"message"`
	Replay  string `json:"replay"`
}

const maxSamples = 10

func NewCollector(property, check string) *Collector {
	return &Collector{Property: property, Check: check,
		nontrivial: map[uint64]struct{}{}, labels: map[string]int64{}, skipped: map[string]int64{},
		excluded: map[string]int64{}, samples: map[uint64]any{}, vioSeen: map[string]bool{}, extra: map[string]any{}}
}

func Hash(s string) uint64 {
	h := fnv.New64a()
	h.Write([]byte(s))
	return h.Sum64()
}

// Case counts one generated case (one property execution).
func (c *Collector) Case() {
	c.mu.Lock()
	c.evals++
	c.mu.Unlock()
}

// Cases counts n executions.
func (c *Collector) Cases(n int) {
	c.mu.Lock()
	c.evals += int64(n)
	c.mu.Unlock()
}

// NonTrivial records a case that satisfies the property's non-triviality rule;
// key identifies the case (distinctness); sample is stored for a few of them.
func (c *Collector) NonTrivial(key string, sample func() any) {
	h := Hash(key)
	c.mu.Lock()
	defer c.mu.Unlock()
	if _, ok := c.nontrivial[h]; ok {
		return
	}
	c.nontrivial[h] = struct{}{}
	if sample == nil {
		return
	}
	if len(c.samples) < maxSamples {
		c.samples[h] = sample()
		return
	}
	var max uint64
	for k := range c.samples {
		if k > max {
			max = k
		}
	}
	if h < max {
		delete(c.samples, max)
		c.samples[h] = sample()
	}
}

func (c *Collector) Label(l string) {
	c.mu.Lock()
	c.labels[l]++
	c.mu.Unlock()
}

func (c *Collector) Skip(reason string) {
	c.mu.Lock()
	c.skipped[reason]++
	c.mu.Unlock()
}

func (c *Collector) Exclude(key string) {
	c.mu.Lock()
	c.excluded[key]++
	c.mu.Unlock()
}

func (c *Collector) SetExtra(k string, v any) {
	c.mu.Lock()
	c.extra[k] = v
	c.mu.Unlock()
}

// KeepGoing is the triage mode: failures are recorded (deduplicated by
// signature) and the run continues.
func KeepGoing() bool { return os.Getenv("VERIF_KEEPGOING") == "1" }

func shard() int {
	i, _ := strconv.Atoi(os.Getenv("VERIF_SHARD"))
	return i
}

func seed() uint64 {
	s, _ := strconv.ParseUint(os.Getenv("VERIF_SEED"), 10, 64)
	return s
}

func outDir() string {
	if d := os.Getenv("VERIF_OUT_DIR"); d != "" {
		return d
	}
	return os.TempDir()
}

// Fatalfer is the part of *rapid.T / *testing.T used here.
type Fatalfer interface {
	Fatalf(format string, args ...any)
	Helper()
}

// Fail records a violation: writes the replay file (overwriting the previous
// one of this shard+check, so that after shrinking the minimal case remains)
// and fails the test — unless in keep-going mode, where it returns and the
// caller must return from the property.
func (c *Collector) Fail(t Fatalfer, r Replay, signature string) {
	t.Helper()
	r.Property = c.Property
	if r.Check == "" {
		r.Check = c.Check
	}
	r.Seed = seed()
	r.Shard = shard()
	if len(r.Message) > 3000 {
		// (the calls carry the full case; a megabyte of padding in the message helps nobody)
		r.Message = r.Message[:1500] + " ... [" + strconv.Itoa(len(r.Message)-3000) + " bytes omitted] ... " + r.Message[len(r.Message)-1500:]
	}
	name := fmt.Sprintf("%s-%s-s%d.json", c.Property, r.Check, shard())
	if KeepGoing() {
		c.mu.Lock()
		if c.vioSeen[signature] || len(c.violations) >= 400 {
			c.mu.Unlock()
			return
		}
		c.vioSeen[signature] = true
		name = fmt.Sprintf("%s-%s-s%d-%d.json", c.Property, r.Check, shard(), len(c.violations))
		c.mu.Unlock()
	}
	path := filepath.Join(outDir(), name)
	b, _ := json.MarshalIndent(r, "", " ")
	_ = os.WriteFile(path, b, 0o644)
	c.mu.Lock()
	if KeepGoing() {
		c.violations = append(c.violations, Violation{Check: r.Check, Message: r.Message, Replay: path})
	} else {
		// only the last (minimal) one matters
		c.violations = []Violation{{Check: r.Check, Message: r.Message, Replay: path}}
	}
	c.mu.Unlock()
	if !KeepGoing() {
		t.Fatalf("VIOLATION %s/%s: %s\n  calls: %s", c.Property, r.Check, r.Message, callsText(r.Calls))
	}
}

func callsText(cs []Call) string {
	s := ""
	for i, c := range cs {
		if i > 0 {
			s += " ; "
		}
		s += c.API + " " + strconv.Quote(c.Expr)
		if c.Doc != nil {
			s += " on " + c.Doc.Text()
		}
	}
	return s
}

// hang records a non-terminating call (called by the watchdog).
func (c *Collector) hang(r Replay) {
	r.Property = c.Property
	r.Seed = seed()
	r.Shard = shard()
	path := filepath.Join(outDir(), fmt.Sprintf("%s-%s-s%d-hang.json", c.Property, r.Check, shard()))
	b, _ := json.MarshalIndent(r, "", " ")
	_ = os.WriteFile(path, b, 0o644)
	c.mu.Lock()
	c.violations = append(c.violations, Violation{Check: r.Check, Message: r.Message, Replay: path})
	c.mu.Unlock()
}

// Abort records a violation after which the process cannot go on (calls that
// never return hold whatever they hold): the replay is written, the
// statistics are flushed and the process exits like after a watchdog trip.
func (c *Collector) Abort(r Replay) {
	c.hang(r)
	fmt.Printf("VIOLATION %s/%s: %s\n  calls: %s\n", c.Property, r.Check, r.Message, callsText(r.Calls))
	FlushAll()
	os.Exit(3)
}

// ShardStats is what one shard process writes.
type ShardStats struct {
	Property    string           `json:"property"`
	Check       string           `json:"check"`
	Shard       int              `json:"shard"`
	Evaluations int64            `json:"evaluations"`
	NonTrivial  int              `json:"nontrivial_in_shard"`
	HashFile    string           `json:"hash_file"`
	Labels      map[string]int64 `json:"labels"`
	Skipped     map[string]int64 `json:"skipped"`
	Excluded    map[string]int64 `json:"excluded"`
	Samples     []any            `json:"samples"`
	Violations  []Violation      `json:"violations"`
	Extra       map[string]any   `json:"extra"`
}

// Flush writes the shard's statistics (JSON) and its non-trivial hashes
// (binary, 8 bytes each) into VERIF_OUT_DIR.
func (c *Collector) Flush() {
	c.mu.Lock()
	defer c.mu.Unlock()
	dir := outDir()
	base := fmt.Sprintf("%s-%s-s%d", c.Property, c.Check, shard())
	hashes := make([]uint64, 0, len(c.nontrivial))
	for h := range c.nontrivial {
		hashes = append(hashes, h)
	}
	sort.Slice(hashes, func(i, j int) bool { return hashes[i] < hashes[j] })
	buf := make([]byte, 8*len(hashes))
	for i, h := range hashes {
		binary.LittleEndian.PutUint64(buf[8*i:], h)
	}
	hf := filepath.Join(dir, base+".hashes")
	_ = os.WriteFile(hf, buf, 0o644)
	keys := make([]uint64, 0, len(c.samples))
	for k := range c.samples {
		keys = append(keys, k)
	}
	sort.Slice(keys, func(i, j int) bool { return keys[i] < keys[j] })
	samples := make([]any, 0, len(keys))
	for _, k := range keys {
		samples = append(samples, c.samples[k])
	}
	st := ShardStats{Property: c.Property, Check: c.Check, Shard: shard(), Evaluations: c.evals,
		NonTrivial: len(hashes), HashFile: hf, Labels: c.labels, Skipped: c.skipped, Excluded: c.excluded,
		Samples: samples, Violations: c.violations, Extra: c.extra}
	b, _ := json.MarshalIndent(st, "", " ")
	_ = os.WriteFile(filepath.Join(dir, base+".stats.json"), b, 0o644)
}
