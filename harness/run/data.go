package run

import (
	"encoding/json"
	"fmt"
	"math"
	"strconv"

	"github.com/woodsbury/decimal128"

	"verif/harness/jv"
)

// Node describes a Go data value handed to the library in plain data, so that
// it can be rebuilt (fresh, unaliased) any number of times and stored in a
// replay file.
type Node struct {
	// T: null bool string array object, or a number carrier: json.Number int
	// int8 int16 int32 int64 uint uint8 uint16 uint32 uint64 float32 float64
	// decimal; or a hostile kind: nilslice nilmap foreign:<what>
	T string `json:"t"`
	B bool   `json:"b,omitempty"`
	// S: the string, or the number's text (for float kinds also "NaN", "+Inf",
	// "-Inf", "-0"; for decimal also "NaN", "Inf", "-Inf")
	S string   `json:"s,omitempty"`
	A []Node   `json:"a,omitempty"`
	K []string `json:"k,omitempty"` // object keys in insertion order (values in A)
	// Cap: spare capacity of the slice (filled with sentinels), for C06
	Cap int `json:"cap,omitempty"`
}

// Sentinel fills unused slice capacity; it must never be touched.
const Sentinel = "\x00verif-sentinel\x00"

// FromVal describes v with json.Number carriers.
func FromVal(v jv.Val) Node {
	switch v.K {
	case jv.Null:
		return Node{T: "null"}
	case jv.Bool:
		return Node{T: "bool", B: v.B}
	case jv.Num:
		t := v.T
		if t == "" {
			t = jv.RatText(v.R)
		}
		return Node{T: "json.Number", S: t}
	case jv.Str:
		return Node{T: "string", S: v.S}
	case jv.Arr:
		n := Node{T: "array", A: make([]Node, len(v.A))}
		for i, e := range v.A {
			n.A[i] = FromVal(e)
		}
		return n
	case jv.Obj:
		n := Node{T: "object", A: make([]Node, len(v.O)), K: make([]string, len(v.O))}
		for i, m := range v.O {
			n.K[i] = m.K
			n.A[i] = FromVal(m.V)
		}
		return n
	}
	panic("FromVal")
}

// Foreign values used as opaque data.
type foreignStruct struct {
	A int
	B string
}

type namedMap map[string]any
type namedSlice []any
type namedString string

// WrapKinds lists the wrappers Build understands (one child in A).
var WrapKinds = []string{"wrap:ptrany", "wrap:ptrptr", "wrap:ptr", "wrap:named"}

// Build constructs the Go value.
func (n Node) Build() any {
	switch n.T {
	case "null":
		return nil
	case "bool":
		return n.B
	case "string":
		return n.S
	case "array":
		a := make([]any, len(n.A), len(n.A)+n.Cap)
		for i, e := range n.A {
			a[i] = e.Build()
		}
		if n.Cap > 0 {
			full := a[:cap(a)]
			for i := len(a); i < len(full); i++ {
				full[i] = Sentinel
			}
		}
		return a
	case "object":
		m := make(map[string]any, len(n.A)+n.Cap)
		for i, e := range n.A {
			m[n.K[i]] = e.Build()
		}
		return m
	case "nilslice":
		return []any(nil)
	case "nilmap":
		return map[string]any(nil)
	case "json.Number":
		return json.Number(n.S)
	case "decimal":
		switch n.S {
		case "NaN":
			return decimal128.NaN()
		case "Inf":
			return decimal128.Inf(1)
		case "-Inf":
			return decimal128.Inf(-1)
		}
		d, err := decimal128.Parse(n.S)
		if err != nil {
			panic("data: bad decimal " + n.S)
		}
		return d
	case "float64", "float32":
		var f float64
		switch n.S {
		case "NaN":
			f = math.NaN()
		case "+Inf":
			f = math.Inf(1)
		case "-Inf":
			f = math.Inf(-1)
		case "-0":
			f = math.Copysign(0, -1)
		default:
			var err error
			f, err = strconv.ParseFloat(n.S, 64)
			if err != nil {
				panic("data: bad float " + n.S)
			}
		}
		if n.T == "float32" {
			return float32(f)
		}
		return f
	case "int", "int8", "int16", "int32", "int64":
		i, err := strconv.ParseInt(n.S, 10, 64)
		if err != nil {
			panic("data: bad int " + n.S)
		}
		switch n.T {
		case "int":
			return int(i)
		case "int8":
			return int8(i)
		case "int16":
			return int16(i)
		case "int32":
			return int32(i)
		}
		return i
	case "uint", "uint8", "uint16", "uint32", "uint64":
		u, err := strconv.ParseUint(n.S, 10, 64)
		if err != nil {
			panic("data: bad uint " + n.S)
		}
		switch n.T {
		case "uint":
			return uint(u)
		case "uint8":
			return uint8(u)
		case "uint16":
			return uint16(u)
		case "uint32":
			return uint32(u)
		}
		return u
	case "foreign:strings":
		return []string{"a", "b"}
	case "foreign:mapint":
		return map[string]int{"a": 1}
	case "foreign:struct":
		return foreignStruct{1, "x"}
	case "foreign:ptr":
		return &foreignStruct{2, "y"}
	case "foreign:nilptr":
		return (*foreignStruct)(nil)
	case "foreign:chan":
		return make(chan int)
	case "foreign:func":
		return func() {}
	case "foreign:complex":
		return complex(1, 2)
	case "foreign:bytes":
		return []byte("ab")
	case "foreign:ifaces":
		return []interface{ Foo() }{nil}
	case "foreign:mapany":
		return map[any]any{"a": 1}
	case "foreign:rune":
		return 'x' // int32 is a supported kind; kept for variety
	case "foreign:uintptr":
		return uintptr(7)
	case "foreign:error":
		return fmt.Errorf("boom")
	case "foreign:ptrany":
		var v any = map[string]any{"a": json.Number("1"), "b": []any{json.Number("1"), json.Number("2")}}
		return &v
	case "foreign:ptrmap":
		return &map[string]any{"a": json.Number("1")}
	case "foreign:ptrslice":
		return &[]any{json.Number("1"), "x"}
	case "foreign:namedmap":
		return namedMap{"a": json.Number("1")}
	case "foreign:namedslice":
		return namedSlice{json.Number("1"), "x"}
	case "foreign:rawjson":
		return json.RawMessage(`{"a":1}`)
	case "foreign:namedstring":
		return namedString("abc")
	// wrappers around a described value (A[0]): what a caller who decoded
	// into a pointer, or who uses its own map and slice types, hands over
	case "wrap:ptrany":
		v := n.A[0].Build()
		return &v
	case "wrap:ptrptr":
		v := n.A[0].Build()
		p := &v
		return &p
	case "wrap:ptr":
		switch v := n.A[0].Build().(type) {
		case map[string]any:
			return &v
		case []any:
			return &v
		case string:
			return &v
		default:
			return &v
		}
	case "wrap:named":
		switch v := n.A[0].Build().(type) {
		case map[string]any:
			return namedMap(v)
		case []any:
			return namedSlice(v)
		case string:
			return namedString(v)
		default:
			return v
		}
	}
	panic("data: unknown node type " + n.T)
}

// ForeignKinds lists the opaque kinds Build understands.
var ForeignKinds = []string{
	"foreign:strings", "foreign:mapint", "foreign:struct", "foreign:ptr", "foreign:nilptr",
	"foreign:chan", "foreign:func", "foreign:complex", "foreign:bytes", "foreign:ifaces",
	"foreign:mapany", "foreign:uintptr", "foreign:error",
	"foreign:ptrany", "foreign:ptrmap", "foreign:ptrslice", "foreign:namedmap", "foreign:namedslice", "foreign:rawjson", "foreign:namedstring",
}

// JSONText renders a node tree as JSON-ish text for samples (carriers shown
// as plain numbers; hostile kinds as strings).
func (n Node) Text() string {
	b, _ := json.Marshal(n.plain())
	return string(b)
}

func (n Node) plain() any {
	switch n.T {
	case "null":
		return nil
	case "bool":
		return n.B
	case "string":
		return n.S
	case "array":
		a := make([]any, len(n.A))
		for i, e := range n.A {
			a[i] = e.plain()
		}
		return a
	case "object":
		m := map[string]any{}
		for i, e := range n.A {
			m[n.K[i]] = e.plain()
		}
		return m
	case "json.Number":
		if jv.IsJSONNumber(n.S) {
			return json.Number(n.S)
		}
		return "json.Number(" + n.S + ")"
	}
	return n.T + "(" + n.S + ")"
}

// IsPlainJSON reports whether the tree uses only json.Number carriers and
// JSON kinds.
func (n Node) IsPlainJSON() bool {
	switch n.T {
	case "null", "bool", "string":
		return true
	case "json.Number":
		return jv.IsJSONNumber(n.S)
	case "array", "object":
		for _, e := range n.A {
			if !e.IsPlainJSON() {
				return false
			}
		}
		return true
	}
	return false
}
