package run

import (
	"fmt"
	"reflect"
	"sort"
	"strings"

	"github.com/woodsbury/jmespath"
)

// DumpExpression renders the complete internal state reachable from a compiled
// Expression (its unexported AST, including literal values and the len/cap of
// literal slices) by a read-only reflect walk. It is used to check that
// evaluation never modifies the compiled expression.
func DumpExpression(e *jmespath.Expression) string {
	var b strings.Builder
	dumpValue(&b, reflect.ValueOf(e), 0, map[uintptr]bool{})
	return b.String()
}

func dumpValue(b *strings.Builder, v reflect.Value, depth int, seen map[uintptr]bool) {
	if depth > 200 {
		b.WriteString("<deep>")
		return
	}
	if !v.IsValid() {
		b.WriteString("<invalid>")
		return
	}
	switch v.Kind() {
	case reflect.Pointer:
		if v.IsNil() {
			b.WriteString("nil")
			return
		}
		p := v.Pointer()
		if seen[p] {
			b.WriteString("<cycle>")
			return
		}
		seen[p] = true
		b.WriteString("&")
		dumpValue(b, v.Elem(), depth+1, seen)
		delete(seen, p)
	case reflect.Interface:
		if v.IsNil() {
			b.WriteString("nil")
			return
		}
		fmt.Fprintf(b, "(%s)", v.Elem().Type())
		dumpValue(b, v.Elem(), depth+1, seen)
	case reflect.Struct:
		b.WriteString(v.Type().Name() + "{")
		for i := 0; i < v.NumField(); i++ {
			if i > 0 {
				b.WriteString(",")
			}
			b.WriteString(v.Type().Field(i).Name + ":")
			dumpValue(b, v.Field(i), depth+1, seen)
		}
		b.WriteString("}")
	case reflect.Slice:
		if v.IsNil() {
			b.WriteString("nilslice")
			return
		}
		fmt.Fprintf(b, "[len=%d cap=%d:", v.Len(), v.Cap())
		// the full capacity is part of the state
		full := v
		if v.Cap() > v.Len() && v.CanAddr() == false {
			full = v.Slice(0, v.Cap())
		} else if v.Cap() > v.Len() {
			full = v.Slice(0, v.Cap())
		}
		for i := 0; i < full.Len(); i++ {
			if i > 0 {
				b.WriteString(",")
			}
			dumpValue(b, full.Index(i), depth+1, seen)
		}
		b.WriteString("]")
	case reflect.Array:
		b.WriteString("[")
		for i := 0; i < v.Len(); i++ {
			if i > 0 {
				b.WriteString(",")
			}
			dumpValue(b, v.Index(i), depth+1, seen)
		}
		b.WriteString("]")
	case reflect.Map:
		if v.IsNil() {
			b.WriteString("nilmap")
			return
		}
		type kv struct{ k, v string }
		var items []kv
		it := v.MapRange()
		for it.Next() {
			var kb, vb strings.Builder
			dumpValue(&kb, it.Key(), depth+1, seen)
			dumpValue(&vb, it.Value(), depth+1, seen)
			items = append(items, kv{kb.String(), vb.String()})
		}
		sort.Slice(items, func(i, j int) bool { return items[i].k < items[j].k })
		fmt.Fprintf(b, "map[len=%d:", v.Len())
		for i, it := range items {
			if i > 0 {
				b.WriteString(",")
			}
			b.WriteString(it.k + "=>" + it.v)
		}
		b.WriteString("]")
	case reflect.String:
		fmt.Fprintf(b, "%q", v.String())
	case reflect.Bool:
		fmt.Fprintf(b, "%v", v.Bool())
	case reflect.Int, reflect.Int8, reflect.Int16, reflect.Int32, reflect.Int64:
		fmt.Fprintf(b, "%d", v.Int())
	case reflect.Uint, reflect.Uint8, reflect.Uint16, reflect.Uint32, reflect.Uint64, reflect.Uintptr:
		fmt.Fprintf(b, "%d", v.Uint())
	case reflect.Float32, reflect.Float64:
		fmt.Fprintf(b, "%v", v.Float())
	default:
		fmt.Fprintf(b, "<%s>", v.Kind())
	}
}

// SnapshotFull renders a Go data value including the unused capacity of every
// slice (where the harness has put sentinels).
func SnapshotFull(x any) string {
	var b strings.Builder
	snapFull(&b, x, 0, map[uintptr]bool{})
	return b.String()
}

func snapFull(b *strings.Builder, x any, depth int, path map[uintptr]bool) {
	if depth > 20000 {
		b.WriteString("<excessively deep>")
		return
	}
	switch c := x.(type) {
	case []any:
		if len(c) > 0 {
			p := reflect.ValueOf(c).Pointer()
			if path[p] {
				b.WriteString("<cycle>")
				return
			}
			path[p] = true
			defer delete(path, p)
		}
	case map[string]any:
		if len(c) > 0 {
			p := reflect.ValueOf(c).Pointer()
			if path[p] {
				b.WriteString("<cycle>")
				return
			}
			path[p] = true
			defer delete(path, p)
		}
	}
	switch x := x.(type) {
	case []any:
		if x == nil {
			b.WriteString("nilslice")
			return
		}
		fmt.Fprintf(b, "[len=%d cap=%d:", len(x), cap(x))
		full := x[:cap(x)]
		for i, e := range full {
			if i > 0 {
				b.WriteString(",")
			}
			snapFull(b, e, depth+1, path)
		}
		b.WriteString("]")
	case map[string]any:
		if x == nil {
			b.WriteString("nilmap")
			return
		}
		keys := make([]string, 0, len(x))
		for k := range x {
			keys = append(keys, k)
		}
		sort.Strings(keys)
		fmt.Fprintf(b, "{len=%d:", len(x))
		for i, k := range keys {
			if i > 0 {
				b.WriteString(",")
			}
			fmt.Fprintf(b, "%q:", k)
			snapFull(b, x[k], depth+1, path)
		}
		b.WriteString("}")
	default:
		fmt.Fprintf(b, "%T(%v)", x, x)
	}
}
