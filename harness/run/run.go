// Package run calls the real library through its public API and converts what
// happens into comparable outcomes.
package run

import (
	"errors"
	"fmt"
	"runtime/debug"
	"strings"

	"github.com/woodsbury/jmespath"

	"verif/harness/jv"
	"verif/harness/model"
)

var sentinels = []struct {
	c model.Cat
	e error
}{
	{model.Syntax, jmespath.ErrSyntax},
	{model.Arity, jmespath.ErrInvalidArity},
	{model.UnknownFn, jmespath.ErrUnknownFunction},
	{model.InvType, jmespath.ErrInvalidType},
	{model.InvValue, jmespath.ErrInvalidValue},
	{model.UndefVar, jmespath.ErrUndefinedVariable},
	{model.NaN, jmespath.ErrNotANumber},
	{model.EvalFailed, jmespath.ErrEvaluationFailed},
}

// Outcome of one API call.
type Outcome struct {
	Panic    string // panic value + stack (call itself panicked)
	Failed   bool   // an error was returned
	Cats     model.Cat
	Msg      string
	FmtPanic string // panic while formatting the error
	NonNil   bool   // a non-nil result came back together with an error
	Raw      any
	Val      jv.Val
	Info     jv.Info
}

func (o Outcome) IsValue() bool { return o.Panic == "" && !o.Failed }

// String renders the outcome compactly.
func (o Outcome) String() string {
	switch {
	case o.Panic != "":
		return "PANIC " + firstLine(o.Panic)
	case o.Failed:
		s := fmt.Sprintf("ERROR %v %q", o.Cats.Names(), o.Msg)
		if o.FmtPanic != "" {
			s += " FMT-PANIC " + firstLine(o.FmtPanic)
		}
		return s
	}
	s := "VALUE " + o.Val.JSON()
	if o.Info.NilSlice {
		s += " (contains nil slice)"
	}
	if o.Info.NilMap {
		s += " (contains nil map)"
	}
	if o.Info.Foreign != "" {
		s += " (foreign type " + o.Info.Foreign + ")"
	}
	if o.Info.BadNumber != "" {
		s += " (bad number " + o.Info.BadNumber + ")"
	}
	return s
}

func firstLine(s string) string {
	if i := strings.IndexByte(s, '\n'); i >= 0 {
		return s[:i]
	}
	return s
}

func classify(err error, o *Outcome) {
	o.Failed = true
	for _, s := range sentinels {
		if errors.Is(err, s.e) {
			o.Cats |= s.c
		}
	}
	func() {
		defer func() {
			if r := recover(); r != nil {
				o.FmtPanic = fmt.Sprintf("%v\n%s", r, debug.Stack())
			}
		}()
		o.Msg = err.Error()
		_ = fmt.Sprintf("%v %+v %q %s", err, err, err, err)
	}()
}

func finish(res any, err error, o *Outcome) {
	if err != nil {
		classify(err, o)
		o.NonNil = res != nil
		return
	}
	o.Raw = res
	o.Val, o.Info = jv.FromGo(res)
}

// Search calls jmespath.Search.
func Search(expr string, data any) (o Outcome) {
	defer func() {
		if r := recover(); r != nil {
			o = Outcome{Panic: fmt.Sprintf("%v\n%s", r, debug.Stack())}
		}
	}()
	enterCall()
	res, err := jmespath.Search(expr, data)
	leaveCall()
	finish(res, err, &o)
	return o
}

// Compile calls jmespath.Compile.
func Compile(expr string) (e *jmespath.Expression, o Outcome) {
	defer func() {
		if r := recover(); r != nil {
			e = nil
			o = Outcome{Panic: fmt.Sprintf("%v\n%s", r, debug.Stack())}
		}
	}()
	enterCall()
	e, err := jmespath.Compile(expr)
	leaveCall()
	if err != nil {
		classify(err, &o)
		o.NonNil = e != nil
		return nil, o
	}
	if e == nil {
		o.Panic = "Compile returned (nil, nil)"
	}
	return e, o
}

// MustCompilePanics reports whether MustCompile panics on expr.
func MustCompilePanics(expr string) (panicked bool, e *jmespath.Expression) {
	defer func() {
		if r := recover(); r != nil {
			panicked = true
			e = nil
		}
	}()
	return false, jmespath.MustCompile(expr)
}

// ExprSearch calls (*Expression).Search.
func ExprSearch(e *jmespath.Expression, data any) (o Outcome) {
	defer func() {
		if r := recover(); r != nil {
			o = Outcome{Panic: fmt.Sprintf("%v\n%s", r, debug.Stack())}
		}
	}()
	enterCall()
	res, err := e.Search(data)
	leaveCall()
	finish(res, err, &o)
	return o
}

// CheckAgainst compares a library outcome with the model's. It returns "" if
// they agree (or the model is undetermined), else a description.
func CheckAgainst(res model.Res, o Outcome) string {
	if res.Undet != "" {
		return ""
	}
	if o.Panic != "" {
		return "library panicked: " + firstLine(o.Panic)
	}
	if o.Info.HugeNumber != "" {
		return "" // the result contains a number the harness cannot hold exactly: not judged
	}
	if res.Err != 0 {
		if !o.Failed {
			return fmt.Sprintf("expected error %v, got %s", res.Err.Names(), o)
		}
		if o.Cats&res.Err == 0 {
			return fmt.Sprintf("expected error %v, got %s", res.Err.Names(), o)
		}
		if o.FmtPanic != "" {
			return "error formatting panicked: " + firstLine(o.FmtPanic)
		}
		return ""
	}
	if o.Failed {
		return fmt.Sprintf("expected value %s, got %s", res.V.JSON(), o)
	}
	if o.Info.Foreign != "" || o.Info.BadNumber != "" {
		return fmt.Sprintf("expected value %s, got %s", res.V.JSON(), o)
	}
	if !jv.Equal(res.V, o.Val) {
		return fmt.Sprintf("expected value %s, got %s", res.V.JSON(), o)
	}
	if o.Info.NilSlice || o.Info.NilMap {
		return fmt.Sprintf("expected value %s, got %s (a nil container serialises as null)", res.V.JSON(), o)
	}
	return ""
}

// SameOutcome compares two library outcomes (for metamorphic / differential
// checks). Values are compared with jv.Equal after marking a's arrays
// according to unordered (the caller passes loose=true when the expressions
// enumerate object members, in which case all arrays are compared as
// multisets).
func SameOutcome(a, b Outcome, loose bool) string {
	if a.Panic != "" || b.Panic != "" {
		if a.Panic != "" {
			return "panic: " + firstLine(a.Panic)
		}
		return "panic: " + firstLine(b.Panic)
	}
	if a.Failed != b.Failed {
		return fmt.Sprintf("one fails, the other does not: %s vs %s", a, b)
	}
	if a.Failed {
		if a.Cats&b.Cats == 0 {
			return fmt.Sprintf("different error categories: %s vs %s", a, b)
		}
		return ""
	}
	x, y := a.Val, b.Val
	if loose {
		x = markUnordered(x)
	}
	if !jv.Equal(x, y) {
		return fmt.Sprintf("different values: %s vs %s", a, b)
	}
	return ""
}

// SameOutcomeMF is SameOutcome for cases in which several sub-expressions
// fail at once (multiFault): which fault is reported may then vary from call
// to call, so two failures agree whatever their categories.
func SameOutcomeMF(a, b Outcome, loose, multiFault bool) string {
	if multiFault && a.Panic == "" && b.Panic == "" && a.Failed && b.Failed {
		return ""
	}
	return SameOutcome(a, b, loose)
}

func markUnordered(v jv.Val) jv.Val {
	switch v.K {
	case jv.Arr:
		out := make([]jv.Val, len(v.A))
		for i, e := range v.A {
			out[i] = markUnordered(e)
		}
		return jv.VUArr(out)
	case jv.Obj:
		ms := make([]jv.Member, len(v.O))
		for i, m := range v.O {
			ms[i] = jv.Member{K: m.K, V: markUnordered(m.V)}
		}
		return jv.Val{K: jv.Obj, O: ms}
	}
	return v
}
