package run

import (
	"fmt"
	"os"
	"runtime"
	"sync"
	"sync/atomic"
	"time"
)

// Registry of collectors (one per check), flushed at the end of the process
// and by the watchdog before it kills the process.
var (
	regMu sync.Mutex
	reg   = map[string]*Collector{}
)

// GetCollector returns the collector for property/check.
func GetCollector(property, check string) *Collector {
	regMu.Lock()
	defer regMu.Unlock()
	k := property + "/" + check
	if c, ok := reg[k]; ok {
		return c
	}
	c := NewCollector(property, check)
	reg[k] = c
	return c
}

// FlushAll writes every collector's statistics.
func FlushAll() {
	regMu.Lock()
	cs := make([]*Collector, 0, len(reg))
	for _, c := range reg {
		cs = append(cs, c)
	}
	regMu.Unlock()
	for _, c := range cs {
		c.Flush()
	}
}

// The watchdog: library calls cannot be interrupted, so a call that does not
// return would wedge the shard until the test deadline. Every API wrapper
// stamps the start of the call; a background goroutine notices a call that
// has been running for HangLimit, writes the case as a replay (kind
// "terminates"), records the violation, flushes the statistics and exits.
var (
	HangLimit   = 20 * time.Second
	callStart   atomic.Int64 // unix nanos; 0 = not in a call
	currentCase atomic.Pointer[watched]
	wdOnce      sync.Once
)

type watched struct {
	c     *Collector
	check string
	calls []Call
}

// Watch declares the case whose calls are about to run (for the watchdog).
func Watch(c *Collector, check string, calls ...Call) {
	wdOnce.Do(startWatchdog)
	currentCase.Store(&watched{c: c, check: check, calls: calls})
}

func enterCall() { callStart.Store(time.Now().UnixNano()) }
func leaveCall() { callStart.Store(0) }

func startWatchdog() {
	go func() {
		for {
			time.Sleep(250 * time.Millisecond)
			st := callStart.Load()
			if st == 0 {
				continue
			}
			if time.Duration(time.Now().UnixNano()-st) < HangLimit {
				continue
			}
			w := currentCase.Load()
			if w == nil {
				fmt.Fprintln(os.Stderr, "watchdog: a library call did not return, but no case was declared")
				FlushAll()
				os.Exit(4)
			}
			r := Replay{Check: w.check, Kind: "terminates", Calls: w.calls,
				Message: fmt.Sprintf("library call did not return within %s", HangLimit)}
			w.c.hang(r)
			fmt.Printf("VIOLATION %s/%s: %s\n  calls: %s\n", w.c.Property, w.check, r.Message, callsText(r.Calls))
			FlushAll()
			os.Exit(3)
		}
	}()
}

// HeapLimit: a single library call that drives the Go heap above this many
// bytes is reported like a hang (the case is written as a replay of kind
// "bounded" and the process exits), so that an allocation proportional to an
// integer argument does not take the shard down silently.
var HeapLimit uint64 = 3 << 30

func init() {
	go func() {
		var ms runtime.MemStats
		for {
			time.Sleep(100 * time.Millisecond)
			if callStart.Load() == 0 {
				continue
			}
			runtime.ReadMemStats(&ms)
			if ms.HeapAlloc < HeapLimit {
				continue
			}
			w := currentCase.Load()
			if w == nil {
				continue
			}
			r := Replay{Check: w.check, Kind: "bounded", Calls: w.calls,
				Message: fmt.Sprintf("a library call grew the heap to %d MiB", ms.HeapAlloc>>20)}
			w.c.hang(r)
			fmt.Printf("VIOLATION %s/%s: %s\n  calls: %s\n", w.c.Property, w.check, r.Message, callsText(r.Calls))
			FlushAll()
			os.Exit(3)
		}
	}()
}
