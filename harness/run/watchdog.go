package run

import (
	"encoding/json"
	"fmt"
	"os"
	"runtime"
	"runtime/metrics"
	"sync"
	"sync/atomic"
	"syscall"
	"time"
)

// Registry of collectors (one per check), flushed at the end of the process
// and by the watchdog before it kills the process.
var (
	regMu sync.Mutex
	reg   = map[string]*Collector{}
)

// GetCollector returns the collector for property/check.
func GetCollector(property, check string) *Collector {
	regMu.Lock()
	defer regMu.Unlock()
	k := property + "/" + check
	if c, ok := reg[k]; ok {
		return c
	}
	c := NewCollector(property, check)
	reg[k] = c
	return c
}

// FlushAll writes every collector's statistics.
func FlushAll() {
	regMu.Lock()
	cs := make([]*Collector, 0, len(reg))
	for _, c := range reg {
		cs = append(cs, c)
	}
	regMu.Unlock()
	for _, c := range cs {
		c.Flush()
	}
}

// The watchdog: library calls cannot be interrupted, so a call that does not
// return would wedge the shard until the test deadline. Every API wrapper
// stamps the start of the call; a background goroutine notices a call during
// which the process has consumed HangLimit of CPU time, writes the case as a
// replay (kind "terminates"), records the violation, flushes the statistics
// and exits.
//
// The limit is on CPU time, not on the wall clock: on a machine that is busy
// with other work a call can be descheduled for a long time without being at
// fault (a wall-clock limit of 20 s did fire once, on a call that takes
// microseconds, with the load average at 41). The CPU time of the whole
// process is an upper bound on what the call has used. A call that blocks
// without using CPU is caught by WallLimit.
var (
	HangLimit   = 20 * time.Second
	WallLimit   = 10 * time.Minute
	callStart   atomic.Int64 // unix nanos; 0 = not in a call
	currentCase atomic.Pointer[watched]
	wdOnce      sync.Once
)

type watched struct {
	c     *Collector
	check string
	calls []Call
	kind  string          // replay kind to record instead of "terminates" / "bounded"
	extra json.RawMessage // replay extra
}

// WatchAs is Watch for cases whose calls are symbolic (an enumeration family,
// a construct and a depth): a trip of the watchdog is then recorded as a
// replay of the given custom kind, which re-runs the real thing.
func WatchAs(c *Collector, check, kind string, extra json.RawMessage, calls ...Call) {
	wdOnce.Do(startWatchdog)
	currentCase.Store(&watched{c: c, check: check, calls: calls, kind: kind, extra: extra})
}

// Watch declares the case whose calls are about to run (for the watchdog).
func Watch(c *Collector, check string, calls ...Call) {
	wdOnce.Do(startWatchdog)
	currentCase.Store(&watched{c: c, check: check, calls: calls})
}

func enterCall() { callStart.Store(time.Now().UnixNano()) }
func leaveCall() { callStart.Store(0) }

// ProcessCPU is the CPU time (user + system) the process has used so far.
func ProcessCPU() time.Duration {
	var ru syscall.Rusage
	if err := syscall.Getrusage(syscall.RUSAGE_SELF, &ru); err != nil {
		return 0
	}
	return time.Duration(ru.Utime.Nano() + ru.Stime.Nano())
}

const rusageThread = 1 // RUSAGE_THREAD (Linux)

// ThreadCPU is the CPU time of the calling OS thread; meaningful between two
// calls only while the goroutine is locked to its thread.
func ThreadCPU() time.Duration {
	var ru syscall.Rusage
	if err := syscall.Getrusage(rusageThread, &ru); err != nil {
		return 0
	}
	return time.Duration(ru.Utime.Nano() + ru.Stime.Nano())
}

// CPUTimed runs f on a locked OS thread and returns the CPU time that thread
// spent in it: a measure of the cost of f that does not depend on how busy
// the machine is.
func CPUTimed(f func()) time.Duration {
	runtime.LockOSThread()
	defer runtime.UnlockOSThread()
	t0 := ThreadCPU()
	f()
	return ThreadCPU() - t0
}

// AwaitBounded waits for done; it gives up when the process has used
// HangLimit of CPU time since the wait began, or after WallLimit.
func AwaitBounded(done <-chan string) (string, bool) {
	cpu0, t0 := ProcessCPU(), time.Now()
	tick := time.NewTicker(100 * time.Millisecond)
	defer tick.Stop()
	for {
		select {
		case msg := <-done:
			return msg, true
		case <-tick.C:
			if ProcessCPU()-cpu0 >= HangLimit || time.Since(t0) >= WallLimit {
				return "", false
			}
		}
	}
}

func startWatchdog() {
	go func() {
		var trackSt int64
		var trackCPU time.Duration
		for {
			time.Sleep(250 * time.Millisecond)
			st := callStart.Load()
			if st == 0 {
				trackSt = 0
				continue
			}
			if st != trackSt {
				// a different call from the one seen at the last tick
				trackSt, trackCPU = st, ProcessCPU()
				continue
			}
			if ProcessCPU()-trackCPU < HangLimit && time.Duration(time.Now().UnixNano()-st) < WallLimit {
				continue
			}
			w := currentCase.Load()
			if w == nil {
				fmt.Fprintln(os.Stderr, "watchdog: a library call did not return, but no case was declared")
				FlushAll()
				os.Exit(4)
			}
			r := Replay{Check: w.check, Kind: "terminates", Calls: w.calls,
				Message: fmt.Sprintf("library call did not return within %s of CPU time", HangLimit)}
			if w.kind != "" {
				r.Kind, r.Extra = w.kind, w.extra
			}
			w.c.hang(r)
			fmt.Printf("VIOLATION %s/%s: %s\n  calls: %s\n", w.c.Property, w.check, r.Message, callsText(r.Calls))
			FlushAll()
			os.Exit(3)
		}
	}()
}

// HeapLimit: a single library call that drives the Go heap above this many
// bytes is reported like a hang (the case is written as a replay of kind
// "bounded" and the process exits), so that an allocation proportional to an
// integer argument does not take the shard down silently.
var HeapLimit uint64 = 3 << 30

func init() {
	go func() {
		// runtime/metrics instead of runtime.ReadMemStats: no stop-the-world, so
		// polling ten times a second costs next to nothing (the blocked-call
		// detection of C07 relies on an idle process looking idle)
		sample := []metrics.Sample{{Name: "/memory/classes/heap/objects:bytes"}}
		heapNow := func() uint64 {
			metrics.Read(sample)
			if sample[0].Value.Kind() != metrics.KindUint64 {
				return 0
			}
			return sample[0].Value.Uint64()
		}
		var trackSt int64
		var base uint64
		for {
			time.Sleep(100 * time.Millisecond)
			st := callStart.Load()
			if st == 0 {
				trackSt = 0
				continue
			}
			heap := heapNow()
			if st != trackSt {
				// first sight of this call: what the harness (model, snapshots,
				// earlier results) holds already is not the call's doing
				trackSt, base = st, heap
				continue
			}
			if heap < base || heap-base < HeapLimit {
				continue
			}
			w := currentCase.Load()
			if w == nil {
				continue
			}
			r := Replay{Check: w.check, Kind: "bounded", Calls: w.calls,
				Message: fmt.Sprintf("the heap grew by %d MiB while one library call was running", (heap-base)>>20)}
			if w.kind != "" {
				r.Kind, r.Extra = w.kind, w.extra
			}
			w.c.hang(r)
			fmt.Printf("VIOLATION %s/%s: %s\n  calls: %s\n", w.c.Property, w.check, r.Message, callsText(r.Calls))
			FlushAll()
			os.Exit(3)
		}
	}()
}
