package ast

import (
	"fmt"
	"strconv"
	"strings"
	"unicode/utf8"

	"verif/harness/jv"
)

// Chooser supplies spelling decisions. Choose returns a value in [0,n); 0 is
// always the canonical spelling.
type Chooser interface {
	Choose(label string, n int) int
}

type canon struct{}

func (canon) Choose(string, int) int { return 0 }

// Canonical is the chooser that always picks the canonical spelling.
var Canonical Chooser = canon{}

type renderer struct {
	c Chooser
	b strings.Builder
	// spacing: 0 canonical, 1 tight, 2 random
	spacing int
}

// Render renders with canonical spelling.
func Render(e Expr) string { return RenderWith(e, Canonical) }

// RenderWith renders with spelling choices drawn from c.
func RenderWith(e Expr, c Chooser) string {
	r := &renderer{c: c}
	r.spacing = c.Choose("spacing", 3)
	r.expr(e, 0, false)
	return r.b.String()
}

var wsChoices = []string{"", " ", "  ", "\t", "\n", " \r\n"}

// gap writes optional whitespace (a place where any amount is legal).
// canonical: sp if want else "".
func (r *renderer) gap(want bool) {
	switch r.spacing {
	case 0:
		if want {
			r.b.WriteByte(' ')
		}
	case 1:
	default:
		r.b.WriteString(wsChoices[r.c.Choose("ws", len(wsChoices))])
	}
}

// need writes mandatory whitespace.
func (r *renderer) need() {
	if r.spacing == 2 {
		r.b.WriteString(wsChoices[1+r.c.Choose("ws1", len(wsChoices)-1)])
		return
	}
	r.b.WriteByte(' ')
}

func (r *renderer) opText(op string) string {
	switch op {
	case "*":
		if r.c.Choose("uniop", 4) == 1 {
			return "×"
		}
	case "/":
		if r.c.Choose("uniop", 4) == 1 {
			return "÷"
		}
	case "-":
		if r.c.Choose("uniop", 4) == 1 {
			return "−"
		}
	}
	return op
}

// expr renders e as an operand in a context that requires binding level > min
// (min = 0: any expression allowed). rightOf is true when e is the right
// operand of a left-associative operator of level min (then equal level needs
// parentheses too).
func (r *renderer) expr(e Expr, min int, right bool) {
	switch e := e.(type) {
	case *Binary:
		p := Prec(e.Op)
		paren := p < min || (p == min && right)
		if !paren && r.c.Choose("xparen", 12) == 1 {
			paren = true
		}
		if paren {
			r.b.WriteByte('(')
			r.gap(false)
			r.expr(e, 0, false)
			r.gap(false)
			r.b.WriteByte(')')
			return
		}
		r.expr(e.L, p, false)
		r.gap(true)
		r.b.WriteString(r.opText(e.Op))
		r.gap(true)
		r.expr(e.R, p, true)
	case *Unary:
		// unary binds tighter than every binary operator; as an operand it
		// never needs parentheses itself.
		if e.Op == "-" {
			r.b.WriteString(r.opText("-"))
		} else {
			r.b.WriteString(e.Op)
		}
		if r.spacing == 2 {
			r.gap(false)
		}
		r.unaryOperand(e.X)
	case *Let:
		if min > 0 {
			r.b.WriteByte('(')
			r.let(e)
			r.b.WriteByte(')')
			return
		}
		r.let(e)
	case *Chain:
		r.chain(e)
	default:
		panic(fmt.Sprintf("render: unknown expr %T", e))
	}
}

func (r *renderer) unaryOperand(x Expr) {
	switch x := x.(type) {
	case *Chain:
		if len(x.Steps) == 0 && x.Head.Kind != HImplicit {
			r.chain(x)
			return
		}
		// indexes, slices and [*] bind tighter than the unary operator: !a[*]
		// and !(a[*]) are the same expression (dot steps, flatten and filters
		// are not pinned, see the reference parser)
		if x.Head.Kind != HImplicit && len(x.Steps) > 0 && r.c.Choose("unaryparen", 2) == 1 {
			brackets := true
			for _, st := range x.Steps {
				switch st.Kind {
				case SIndex, SSlice, SListStar:
				default:
					brackets = false
				}
			}
			if brackets {
				r.chain(x)
				return
			}
		}
	case *Unary:
		// "- -a" would lex fine but "--a" too; keep explicit
		if r.spacing != 2 && (x.Op == "-" || x.Op == "+") {
			// avoid "-" immediately followed by digit: cannot happen (operands never start with digit)
		}
		r.expr(x, 0, false)
		return
	}
	r.b.WriteByte('(')
	r.expr(x, 0, false)
	r.b.WriteByte(')')
}

func (r *renderer) let(e *Let) {
	r.b.WriteString("let")
	r.need()
	for i, n := range e.Names {
		if i > 0 {
			r.gap(false)
			r.b.WriteByte(',')
			r.gap(true)
		}
		r.b.WriteString("$" + n)
		r.gap(true)
		r.b.WriteByte('=')
		r.gap(true)
		if _, isLet := e.Vals[i].(*Let); isLet {
			r.b.WriteByte('(')
			r.expr(e.Vals[i], 0, false)
			r.b.WriteByte(')')
		} else {
			r.expr(e.Vals[i], 0, false)
		}
	}
	r.need()
	r.b.WriteString("in")
	r.need()
	r.expr(e.Body, 0, false)
}

func (r *renderer) args(args []Arg) {
	r.b.WriteByte('(')
	for i, a := range args {
		if i > 0 {
			r.b.WriteByte(',')
			r.gap(true)
		} else {
			r.gap(false)
		}
		if a.Ref {
			r.b.WriteByte('&')
			r.gap(false)
		}
		r.expr(a.X, 0, false)
		r.gap(false)
	}
	r.b.WriteByte(')')
}

func (r *renderer) list(items []Expr) {
	if len(items) == 1 {
		if c, ok := items[0].(*Chain); ok && c.Head.Kind == HImplicit && len(c.Steps) == 1 && c.Steps[0].Kind == SStar {
			// a multi-select whose only item is the bare object wildcard: the
			// text [*] (meaningful after a dot only; white space inside it is
			// not pinned by the grammar)
			r.b.WriteString("[*]")
			return
		}
	}
	r.b.WriteByte('[')
	for i, x := range items {
		if i > 0 {
			r.b.WriteByte(',')
			r.gap(true)
		} else {
			r.gap(false)
		}
		r.expr(x, 0, false)
		r.gap(false)
	}
	r.b.WriteByte(']')
}

func (r *renderer) hash(keys []string, items []Expr) {
	r.b.WriteByte('{')
	for i, x := range items {
		if i > 0 {
			r.b.WriteByte(',')
			r.gap(true)
		} else {
			r.gap(false)
		}
		r.ident(keys[i])
		r.gap(false)
		r.b.WriteByte(':')
		r.gap(true)
		r.expr(x, 0, false)
		r.gap(false)
	}
	r.b.WriteByte('}')
}

// IsPlainIdent reports whether s can be written as an unquoted identifier.
func IsPlainIdent(s string) bool {
	if s == "" || s == "let" || s == "in" {
		return false
	}
	for i := 0; i < len(s); i++ {
		c := s[i]
		if c >= 'a' && c <= 'z' || c >= 'A' && c <= 'Z' || c == '_' || (i > 0 && c >= '0' && c <= '9') {
			continue
		}
		return false
	}
	return true
}

func (r *renderer) ident(s string) {
	if IsPlainIdent(s) && r.c.Choose("quoteident", 5) != 1 {
		r.b.WriteString(s)
		return
	}
	r.b.WriteString(QuoteIdent(s, r.c))
}

// QuoteIdent writes s as a quoted identifier (JSON string syntax) with escape
// forms drawn from c.
func QuoteIdent(s string, c Chooser) string {
	return jsonString(s, c, false)
}

// jsonString encodes s as a JSON string. Characters that must be escaped are;
// others are escaped by choice. If backtick is set, '`' is written as "\`"
// (for use inside a JSON literal).
func jsonString(s string, c Chooser, backtick bool) string {
	var b strings.Builder
	b.WriteByte('"')
	for _, ch := range s {
		must := ch < 0x20 || ch == '"' || ch == '\\'
		if ch == '`' && backtick {
			b.WriteString("\\`")
			continue
		}
		form := 0
		if must {
			form = 1 + c.Choose("esc-must", 2) // 1 short (if exists) 2 \u
		} else {
			switch c.Choose("esc-opt", 10) {
			case 1:
				form = 2
			case 2:
				if ch == '/' {
					form = 1
				}
			}
		}
		switch form {
		case 0:
			b.WriteRune(ch)
		case 1:
			switch ch {
			case '"':
				b.WriteString(`\"`)
			case '\\':
				b.WriteString(`\\`)
			case '/':
				b.WriteString(`\/`)
			case '\b':
				b.WriteString(`\b`)
			case '\f':
				b.WriteString(`\f`)
			case '\n':
				b.WriteString(`\n`)
			case '\r':
				b.WriteString(`\r`)
			case '\t':
				b.WriteString(`\t`)
			default:
				writeU(&b, ch, c)
			}
		case 2:
			writeU(&b, ch, c)
		}
	}
	b.WriteByte('"')
	return b.String()
}

func writeU(b *strings.Builder, ch rune, c Chooser) {
	hex := "%04x"
	if c.Choose("hexcase", 2) == 1 {
		hex = "%04X"
	}
	if ch >= 0x10000 {
		ch -= 0x10000
		hi := 0xD800 + (ch >> 10)
		lo := 0xDC00 + (ch & 0x3ff)
		fmt.Fprintf(b, "\\u"+hex+"\\u"+hex, hi, lo)
		return
	}
	fmt.Fprintf(b, "\\u"+hex, ch)
}

// RawString writes s as a raw string literal: ' -> \', and a backslash is
// doubled when it must be (before ', before another backslash, at the end) and
// otherwise by choice (a backslash before any other character is preserved
// verbatim by the grammar).
func RawString(s string, c Chooser) string {
	var b strings.Builder
	b.WriteByte('\'')
	rs := []rune(s)
	for i, ch := range rs {
		switch ch {
		case '\'':
			b.WriteString(`\'`)
		case '\\':
			must := i+1 == len(rs) || rs[i+1] == '\'' || rs[i+1] == '\\'
			if must || c.Choose("rawbs", 2) == 0 {
				b.WriteString(`\\`)
			} else {
				b.WriteByte('\\')
			}
		default:
			b.WriteRune(ch)
		}
	}
	b.WriteByte('\'')
	return b.String()
}

// jsonWS: the four JSON whitespace characters, alone and combined.
var jsonWS = []string{" ", "\t", "\n", "\r", "\r\n", " \t \r"}

// litGap writes optional JSON whitespace (legal around every token of a JSON
// text, and therefore anywhere between the backticks outside strings).
func litGap(b *strings.Builder, c Chooser) {
	if q, ok := c.(quietChooser); ok && q.quiet {
		return
	}
	if c.Choose("litws", 6) == 1 {
		b.WriteString(jsonWS[c.Choose("litwskind", len(jsonWS))])
	}
}

// quietChooser wraps a Chooser for one literal: two literals in three are
// written without any optional white space (one draw instead of one per token).
type quietChooser struct {
	Chooser
	quiet bool
}

// JSONLiteral writes v between backticks.
func JSONLiteral(v jv.Val, c Chooser) string {
	var b strings.Builder
	c = quietChooser{Chooser: c, quiet: c.Choose("litloose", 3) != 1}
	b.WriteByte('`')
	litGap(&b, c)
	writeJSONLit(&b, v, c)
	litGap(&b, c)
	b.WriteByte('`')
	return b.String()
}

func writeJSONLit(b *strings.Builder, v jv.Val, c Chooser) {
	switch v.K {
	case jv.Str:
		b.WriteString(jsonString(v.S, c, true))
	case jv.Arr:
		b.WriteByte('[')
		for i, e := range v.A {
			if i > 0 {
				b.WriteByte(',')
			}
			litGap(b, c)
			writeJSONLit(b, e, c)
			litGap(b, c)
		}
		b.WriteByte(']')
	case jv.Obj:
		b.WriteByte('{')
		for i, m := range v.O {
			if i > 0 {
				b.WriteByte(',')
			}
			litGap(b, c)
			b.WriteString(jsonString(m.K, c, true))
			litGap(b, c)
			b.WriteByte(':')
			litGap(b, c)
			writeJSONLit(b, m.V, c)
			litGap(b, c)
		}
		b.WriteByte('}')
	default:
		b.WriteString(v.JSON())
	}
}

func (r *renderer) head(h Head) {
	switch h.Kind {
	case HField:
		r.ident(h.Name)
	case HLiteral:
		if h.Lit.K == jv.Str && utf8.ValidString(h.Lit.S) && r.c.Choose("strlit", 3) == 1 {
			r.b.WriteString(RawString(h.Lit.S, r.c))
			return
		}
		r.b.WriteString(JSONLiteral(h.Lit, r.c))
	case HRaw:
		if r.c.Choose("rawlit", 4) == 1 {
			r.b.WriteString(JSONLiteral(jv.VStr(h.Raw), r.c))
			return
		}
		r.b.WriteString(RawString(h.Raw, r.c))
	case HCurrent:
		r.b.WriteByte('@')
	case HRoot:
		r.b.WriteByte('$')
	case HVar:
		r.b.WriteString("$" + h.Name)
	case HCall:
		r.b.WriteString(h.Name)
		r.args(h.Args)
	case HParen:
		r.b.WriteByte('(')
		r.gap(false)
		r.expr(h.X, 0, false)
		r.gap(false)
		r.b.WriteByte(')')
	case HMultiList:
		r.list(h.Items)
	case HMultiHash:
		r.hash(h.Keys, h.Items)
	case HImplicit:
	}
}

func (r *renderer) chain(c *Chain) {
	r.head(c.Head)
	for i, s := range c.Steps {
		first := i == 0 && c.Head.Kind == HImplicit
		r.step(s, first)
	}
}

func (r *renderer) dot() {
	if r.spacing == 2 && r.c.Choose("dotws", 4) == 1 {
		r.b.WriteString(" . ")
		return
	}
	r.b.WriteByte('.')
}

// intLit writes an index or slice number; the grammar (number = ["-"] 1*digit)
// allows leading zeros, which never change the value (08 is eight, not octal).
func (r *renderer) intLit(v int64) {
	t := strconv.FormatInt(v, 10)
	if k := r.c.Choose("intzeros", 8); k == 1 || k == 2 {
		zeros := "0"
		if k == 2 {
			zeros = "000"
		}
		if t[0] == '-' {
			t = "-" + zeros + t[1:]
		} else {
			t = zeros + t
		}
	}
	r.b.WriteString(t)
}

func (r *renderer) step(s Step, first bool) {
	switch s.Kind {
	case SField:
		r.dot()
		r.ident(s.Name)
	case SCall:
		r.dot()
		r.b.WriteString(s.Name)
		r.args(s.Args)
	case SMultiList:
		r.dot()
		r.list(s.Items)
	case SMultiHash:
		r.dot()
		r.hash(s.Keys, s.Items)
	case SStar:
		if first {
			r.b.WriteByte('*')
		} else {
			r.b.WriteString(".*")
		}
	case SIndex:
		if !first && r.spacing == 2 {
			r.gap(false)
		}
		r.b.WriteByte('[')
		r.gap(false)
		r.intLit(s.Index)
		r.gap(false)
		r.b.WriteByte(']')
	case SSlice:
		if !first && r.spacing == 2 {
			r.gap(false)
		}
		r.b.WriteByte('[')
		r.gap(false)
		if s.Start != nil {
			r.intLit(*s.Start)
			r.gap(false)
		}
		r.b.WriteByte(':')
		r.gap(false)
		if s.Stop != nil {
			r.intLit(*s.Stop)
			r.gap(false)
		}
		if s.Stride != nil {
			r.b.WriteByte(':')
			r.gap(false)
			r.intLit(*s.Stride)
			r.gap(false)
		} else if r.c.Choose("slicecolon", 4) == 1 {
			r.b.WriteByte(':')
			r.gap(false)
		}
		r.b.WriteByte(']')
	case SListStar:
		r.b.WriteString("[*]")
	case SFlatten:
		r.b.WriteString("[]")
	case SFilter:
		r.b.WriteString("[?")
		r.gap(false)
		r.expr(s.Cond, 0, false)
		r.gap(false)
		r.b.WriteByte(']')
	}
}
