// Package ast is the harness's own AST for JMESPath Community expressions. It
// mirrors the grammar ("chain" form: a head followed by postfix steps), not
// the library's node types.
package ast

import (
	"verif/harness/jv"
)

type Expr interface{ isExpr() }

// Binary: Op is one of | || && == != < <= > >= + - * / // %
type Binary struct {
	Op   string
	L, R Expr
}

// Unary: Op is one of ! - +
type Unary struct {
	Op string
	X  Expr
}

type Let struct {
	Names []string // without '$'
	Vals  []Expr
	Body  Expr
}

type Chain struct {
	Head  Head
	Steps []Step
}

func (*Binary) isExpr() {}
func (*Unary) isExpr()  {}
func (*Let) isExpr()    {}
func (*Chain) isExpr()  {}

type HeadKind uint8

const (
	HField     HeadKind = iota
	HLiteral            // `json`
	HRaw                // 'raw string'
	HCurrent            // @
	HRoot               // $
	HVar                // $name
	HCall               // name(args)
	HParen              // (expr)
	HMultiList          // [e1, e2]
	HMultiHash          // {k: e}
	HImplicit           // chain starts directly with a bracket step or bare *
)

type Arg struct {
	Ref bool // &expr
	X   Expr
}

type Head struct {
	Kind  HeadKind
	Name  string   // field name, variable name, function name
	Lit   jv.Val   // HLiteral value
	Raw   string   // HRaw decoded value
	Args  []Arg    // HCall
	X     Expr     // HParen
	Items []Expr   // HMultiList / HMultiHash values
	Keys  []string // HMultiHash keys
}

type StepKind uint8

const (
	SField     StepKind = iota // .name
	SCall                      // .name(args)
	SMultiList                 // .[e1,e2]
	SMultiHash                 // .{k: e}
	SStar                      // .*   (bare * when first step of an implicit-head chain)
	SIndex                     // [n]
	SSlice                     // [a:b:c]
	SListStar                  // [*]
	SFlatten                   // []
	SFilter                    // [?cond]
)

type Step struct {
	Kind  StepKind
	Name  string
	Args  []Arg
	Items []Expr
	Keys  []string
	Index int64
	// slice parts; nil = absent
	Start, Stop, Stride *int64
	Cond                Expr
}

// IsProjection reports whether the step creates a projection (for SSlice that
// additionally depends on the subject being an array at run time).
func (s Step) IsProjection() bool {
	switch s.Kind {
	case SStar, SSlice, SListStar, SFlatten, SFilter:
		return true
	}
	return false
}

func F(name string) *Chain { return &Chain{Head: Head{Kind: HField, Name: name}} }
func Cur() *Chain          { return &Chain{Head: Head{Kind: HCurrent}} }
func Lit(v jv.Val) *Chain  { return &Chain{Head: Head{Kind: HLiteral, Lit: v}} }
func RawS(s string) *Chain { return &Chain{Head: Head{Kind: HRaw, Raw: s}} }
func Var(n string) *Chain  { return &Chain{Head: Head{Kind: HVar, Name: n}} }
func Paren(x Expr) *Chain  { return &Chain{Head: Head{Kind: HParen, X: x}} }
func Call(name string, args ...Arg) *Chain {
	return &Chain{Head: Head{Kind: HCall, Name: name, Args: args}}
}
func A(x Expr) Arg                     { return Arg{X: x} }
func Ref(x Expr) Arg                   { return Arg{Ref: true, X: x} }
func Bin(op string, l, r Expr) *Binary { return &Binary{Op: op, L: l, R: r} }

// With returns a copy of the chain with extra steps appended.
func (c *Chain) With(steps ...Step) *Chain {
	n := &Chain{Head: c.Head}
	n.Steps = append(append([]Step{}, c.Steps...), steps...)
	return n
}

func I64(i int64) *int64 { return &i }

// Prec returns the binding level of a binary operator (higher binds tighter).
func Prec(op string) int {
	switch op {
	case "|":
		return 1
	case "||":
		return 2
	case "&&":
		return 3
	case "==", "!=", "<", "<=", ">", ">=":
		return 5
	case "+", "-":
		return 6
	case "*", "/", "//", "%":
		return 7
	}
	return 0
}

var BinaryOps = []string{"|", "||", "&&", "==", "!=", "<", "<=", ">", ">=", "+", "-", "*", "/", "//", "%"}

// Walk calls f on every expression node (pre-order), including those nested in
// heads, steps and arguments.
func Walk(e Expr, f func(Expr)) {
	if e == nil {
		return
	}
	f(e)
	switch e := e.(type) {
	case *Binary:
		Walk(e.L, f)
		Walk(e.R, f)
	case *Unary:
		Walk(e.X, f)
	case *Let:
		for _, v := range e.Vals {
			Walk(v, f)
		}
		Walk(e.Body, f)
	case *Chain:
		for _, a := range e.Head.Args {
			Walk(a.X, f)
		}
		Walk(e.Head.X, f)
		for _, x := range e.Head.Items {
			Walk(x, f)
		}
		for _, s := range e.Steps {
			for _, a := range s.Args {
				Walk(a.X, f)
			}
			for _, x := range s.Items {
				Walk(x, f)
			}
			Walk(s.Cond, f)
		}
	}
}

// Size counts AST nodes (expressions + steps).
func Size(e Expr) int {
	n := 0
	Walk(e, func(x Expr) {
		n++
		if c, ok := x.(*Chain); ok {
			n += len(c.Steps)
		}
	})
	return n
}

// Shape renders a skeleton of the expression (construct kinds only, no names
// or values); used to group failures by the construct that triggers them.
func Shape(e Expr) string {
	switch e := e.(type) {
	case *Binary:
		return "(" + Shape(e.L) + " " + e.Op + " " + Shape(e.R) + ")"
	case *Unary:
		return e.Op + Shape(e.X)
	case *Let:
		s := "let("
		for _, v := range e.Vals {
			s += Shape(v) + ","
		}
		return s + ")in " + Shape(e.Body)
	case *Chain:
		s := ""
		switch e.Head.Kind {
		case HField:
			s = "f"
		case HLiteral:
			s = "`" + e.Head.Lit.K.String() + "`"
		case HRaw:
			s = "'s'"
		case HCurrent:
			s = "@"
		case HRoot:
			s = "$"
		case HVar:
			s = "$v"
		case HCall:
			s = e.Head.Name + "(" + shapeArgs(e.Head.Args) + ")"
		case HParen:
			s = "(" + Shape(e.Head.X) + ")"
		case HMultiList:
			s = "[" + shapeList(e.Head.Items) + "]"
		case HMultiHash:
			s = "{" + shapeList(e.Head.Items) + "}"
		case HImplicit:
			s = "_"
		}
		for _, st := range e.Steps {
			switch st.Kind {
			case SField:
				s += ".f"
			case SCall:
				s += "." + st.Name + "(" + shapeArgs(st.Args) + ")"
			case SMultiList:
				s += ".[" + shapeList(st.Items) + "]"
			case SMultiHash:
				s += ".{" + shapeList(st.Items) + "}"
			case SStar:
				s += ".*"
			case SIndex:
				s += "[n]"
			case SSlice:
				s += "[:]"
			case SListStar:
				s += "[*]"
			case SFlatten:
				s += "[]"
			case SFilter:
				s += "[?" + Shape(st.Cond) + "]"
			}
		}
		return s
	}
	return "?"
}

func shapeArgs(as []Arg) string {
	s := ""
	for i, a := range as {
		if i > 0 {
			s += ","
		}
		if a.Ref {
			s += "&"
		}
		s += Shape(a.X)
	}
	return s
}

func shapeList(xs []Expr) string {
	s := ""
	for i, x := range xs {
		if i > 0 {
			s += ","
		}
		s += Shape(x)
	}
	return s
}
