package ast

import (
	"encoding/json"
	"fmt"
	"strconv"
	"strings"
	"unicode/utf16"
	"unicode/utf8"

	"verif/harness/jv"
)

// Verdict of the reference recognizer.
type Verdict uint8

const (
	In    Verdict = iota // member of the grammar
	Out                  // not a member: must be rejected as a syntax error
	Undet                // the grammar text does not decide
)

func (v Verdict) String() string { return [...]string{"IN", "OUT", "UNDET"}[v] }

type ParseResult struct {
	Verdict Verdict
	Expr    Expr
	Reason  string // for Out / Undet
	Tokens  int
}

type tokKind uint8

const (
	tEOF tokKind = iota
	tIdent
	tQuoted
	tRaw
	tLiteral
	tInt
	tVar
	tRoot
	tCurrent
	tOp // text in s: | || && == != < <= > >= + - * / // % ! & . , : ( ) [ ] { } = [? [] [*] .*
)

type token struct {
	k    tokKind
	s    string // op text / identifier / decoded string
	lit  jv.Val
	n    int64
	pos  int
	gapB bool // white space before this token
}

type undetErr struct{ reason string }
type outErr struct{ reason string }

// Parse is the reference parser / recognizer.
func Parse(src string) (res ParseResult) {
	defer func() {
		if r := recover(); r != nil {
			switch e := r.(type) {
			case undetErr:
				res = ParseResult{Verdict: Undet, Reason: e.reason}
			case outErr:
				res = ParseResult{Verdict: Out, Reason: e.reason}
			default:
				panic(r)
			}
		}
	}()
	if !utf8.ValidString(src) {
		return ParseResult{Verdict: Out, Reason: "invalid utf-8"}
	}
	toks, undet := lex(src)
	p := &parser{toks: toks}
	e := p.expr(0)
	if p.peek().k != tEOF {
		panic(outErr{fmt.Sprintf("trailing token at %d", p.peek().pos)})
	}
	if undet != "" {
		// lexical doubt in an otherwise well-formed expression
		return ParseResult{Verdict: Undet, Reason: undet, Tokens: len(toks)}
	}
	if p.undet != "" {
		return ParseResult{Verdict: Undet, Reason: p.undet, Tokens: len(toks)}
	}
	return ParseResult{Verdict: In, Expr: e, Tokens: len(toks)}
}

func isIdentStart(c byte) bool {
	return c >= 'a' && c <= 'z' || c >= 'A' && c <= 'Z' || c == '_'
}
func isIdentChar(c byte) bool { return isIdentStart(c) || c >= '0' && c <= '9' }

// lex tokenizes. Lexical faults that make the string OUT panic with outErr;
// lexical doubts are returned as the second result (the parse continues so
// that a syntactically broken string is still OUT rather than UNDET).
func lex(src string) ([]token, string) {
	var toks []token
	undet := ""
	doubt := func(r string) {
		if undet == "" {
			undet = r
		}
	}
	i := 0
	n := len(src)
	for {
		gap := false
		for i < n && (src[i] == ' ' || src[i] == '\t' || src[i] == '\n' || src[i] == '\r') {
			i++
			gap = true
		}
		if i >= n {
			toks = append(toks, token{k: tEOF, pos: i, gapB: gap})
			return toks, undet
		}
		c := src[i]
		start := i
		add := func(t token) {
			t.pos = start
			t.gapB = gap
			toks = append(toks, t)
		}
		switch {
		case isIdentStart(c):
			j := i
			for j < n && isIdentChar(src[j]) {
				j++
			}
			add(token{k: tIdent, s: src[i:j]})
			i = j
		case c >= '0' && c <= '9' || (c == '-' && i+1 < n && src[i+1] >= '0' && src[i+1] <= '9'):
			j := i + 1
			for j < n && src[j] >= '0' && src[j] <= '9' {
				j++
			}
			v, err := strconv.ParseInt(src[i:j], 10, 64)
			if err != nil {
				doubt("integer-beyond-int64")
			}
			add(token{k: tInt, n: v, s: src[i:j]})
			i = j
		case c == '"':
			j := i + 1
			for {
				if j >= n {
					panic(outErr{"unterminated quoted identifier"})
				}
				if src[j] == '\\' {
					j += 2
					continue
				}
				if src[j] == '"' {
					break
				}
				j++
			}
			if j >= n {
				panic(outErr{"unterminated quoted identifier"})
			}
			s, verdict, reason := decodeQuoted(src[i+1 : j])
			switch verdict {
			case Out:
				panic(outErr{reason})
			case Undet:
				doubt(reason)
			}
			add(token{k: tQuoted, s: s})
			i = j + 1
		case c == '\'':
			j := i + 1
			var b strings.Builder
			for {
				if j >= n {
					panic(outErr{"unterminated raw string"})
				}
				if src[j] == '\\' {
					if j+1 >= n {
						panic(outErr{"unterminated raw string"})
					}
					// decode one code point after the backslash
					r, sz := utf8.DecodeRuneInString(src[j+1:])
					if r == '\'' || r == '\\' {
						b.WriteRune(r)
					} else {
						b.WriteByte('\\')
						b.WriteRune(r)
					}
					j += 1 + sz
					continue
				}
				if src[j] == '\'' {
					break
				}
				b.WriteByte(src[j])
				j++
			}
			add(token{k: tRaw, s: b.String()})
			i = j + 1
		case c == '`':
			j := i + 1
			var b strings.Builder
			for {
				if j >= n {
					panic(outErr{"unterminated literal"})
				}
				if src[j] == '\\' {
					if j+1 >= n {
						panic(outErr{"unterminated literal"})
					}
					if src[j+1] == '`' {
						b.WriteByte('`')
						j += 2
						continue
					}
					// keep the escape pair intact (it belongs to the JSON text)
					_, sz := utf8.DecodeRuneInString(src[j+1:])
					b.WriteString(src[j : j+1+sz])
					j += 1 + sz
					continue
				}
				if src[j] == '`' {
					break
				}
				b.WriteByte(src[j])
				j++
			}
			v, verdict, reason := decodeJSONLiteral(b.String())
			switch verdict {
			case Out:
				panic(outErr{reason})
			case Undet:
				doubt(reason)
			}
			add(token{k: tLiteral, lit: v})
			i = j + 1
		case c == '$':
			j := i + 1
			if j < n && isIdentStart(src[j]) {
				for j < n && isIdentChar(src[j]) {
					j++
				}
				add(token{k: tVar, s: src[i+1 : j]})
			} else {
				add(token{k: tRoot})
			}
			i = j
		case c == '@':
			add(token{k: tCurrent})
			i++
		default:
			op := ""
			two := ""
			if i+1 < n {
				two = src[i : i+2]
			}
			switch {
			case strings.HasPrefix(src[i:], "[*]"):
				op = "[*]"
			case two == "[?" || two == "[]" || two == ".*" || two == "||" || two == "&&" || two == "==" || two == "!=" || two == "<=" || two == ">=" || two == "//":
				op = two
			case strings.IndexByte("|&=!<>+-*/%.,:()[]{}", c) >= 0:
				op = string(c)
			case strings.HasPrefix(src[i:], "×"):
				// multiplication only: never a wildcard
				add(token{k: tOp, s: "×"})
				i += len("×")
				continue
			case strings.HasPrefix(src[i:], "÷"):
				add(token{k: tOp, s: "/"})
				i += len("÷")
				continue
			case strings.HasPrefix(src[i:], "−"):
				add(token{k: tOp, s: "-"})
				i += len("−")
				continue
			default:
				panic(outErr{fmt.Sprintf("unexpected character at %d", i)})
			}
			add(token{k: tOp, s: op})
			i += len(op)
		}
	}
}

// decodeQuoted decodes the inside of a quoted identifier (JSON string body).
func decodeQuoted(body string) (string, Verdict, string) {
	verdict, reason := In, ""
	for i := 0; i < len(body); i++ {
		if body[i] < 0x20 {
			verdict, reason = Undet, "raw-control-char-in-quoted-identifier"
		}
	}
	s, v2, r2 := decodeJSONStringBody(body)
	if v2 == Out {
		return "", Out, r2
	}
	if v2 == Undet {
		return s, Undet, r2
	}
	return s, verdict, reason
}

// decodeJSONStringBody decodes JSON string escapes. Raw control characters are
// passed through (the caller decides about them).
func decodeJSONStringBody(body string) (string, Verdict, string) {
	var b strings.Builder
	verdict, reason := In, ""
	for i := 0; i < len(body); {
		c := body[i]
		if c != '\\' {
			b.WriteByte(c)
			i++
			continue
		}
		if i+1 >= len(body) {
			return "", Out, "dangling backslash"
		}
		switch body[i+1] {
		case '"':
			b.WriteByte('"')
		case '\\':
			b.WriteByte('\\')
		case '/':
			b.WriteByte('/')
		case 'b':
			b.WriteByte('\b')
		case 'f':
			b.WriteByte('\f')
		case 'n':
			b.WriteByte('\n')
		case 'r':
			b.WriteByte('\r')
		case 't':
			b.WriteByte('\t')
		case 'u':
			r, ok := hex4(body, i+2)
			if !ok {
				return "", Out, "bad \\u escape"
			}
			i += 6
			if utf16.IsSurrogate(r) {
				if r >= 0xDC00 {
					verdict, reason = Undet, "lone-low-surrogate"
					b.WriteRune(utf8.RuneError)
					continue
				}
				if i+1 < len(body) && body[i] == '\\' && body[i+1] == 'u' {
					r2, ok := hex4(body, i+2)
					if !ok {
						return "", Out, "bad \\u escape"
					}
					if r2 >= 0xDC00 && r2 <= 0xDFFF {
						b.WriteRune(utf16.DecodeRune(r, r2))
						i += 6
						continue
					}
				}
				verdict, reason = Undet, "lone-high-surrogate"
				b.WriteRune(utf8.RuneError)
				continue
			}
			b.WriteRune(r)
			continue
		default:
			return "", Out, "bad escape"
		}
		i += 2
	}
	return b.String(), verdict, reason
}

func hex4(s string, i int) (rune, bool) {
	if i+4 > len(s) {
		return 0, false
	}
	var r rune
	for _, c := range []byte(s[i : i+4]) {
		switch {
		case c >= '0' && c <= '9':
			r = r*16 + rune(c-'0')
		case c >= 'a' && c <= 'f':
			r = r*16 + rune(c-'a'+10)
		case c >= 'A' && c <= 'F':
			r = r*16 + rune(c-'A'+10)
		default:
			return 0, false
		}
	}
	return r, true
}

// decodeJSONLiteral parses the text between backticks (after \` unescaping) as
// exactly one RFC 8259 value.
func decodeJSONLiteral(text string) (jv.Val, Verdict, string) {
	if strings.TrimLeft(text, " \t\r\n") == "" {
		return jv.Val{}, Out, "empty literal"
	}
	if !json.Valid([]byte(text)) {
		return jv.Val{}, Out, "invalid JSON literal"
	}
	// lone surrogate escapes are accepted by encoding/json (as U+FFFD): doubt
	verdict, reason := In, ""
	if hasLoneSurrogateEscape(text) {
		verdict, reason = Undet, "lone-surrogate-in-literal"
	}
	v, err := jv.ParseJSON(text)
	if err != nil {
		return jv.Val{}, Out, "invalid JSON literal"
	}
	if hasDupKeys(text) {
		verdict, reason = Undet, "duplicate-keys-in-literal"
	}
	return v, verdict, reason
}

func hasLoneSurrogateEscape(text string) bool {
	for i := 0; i+5 < len(text); i++ {
		if text[i] == '\\' {
			if text[i+1] != 'u' {
				i++
				continue
			}
			r, ok := hex4(text, i+2)
			if !ok {
				continue
			}
			if utf16.IsSurrogate(r) {
				if r >= 0xDC00 {
					return true
				}
				if i+12 <= len(text) && text[i+6] == '\\' && text[i+7] == 'u' {
					r2, ok := hex4(text, i+8)
					if ok && r2 >= 0xDC00 && r2 <= 0xDFFF {
						i += 11
						continue
					}
				}
				return true
			}
			i += 5
		}
	}
	return false
}

func hasDupKeys(text string) bool {
	d := json.NewDecoder(strings.NewReader(text))
	d.UseNumber()
	type frame struct {
		obj  bool
		keys map[string]bool
		key  bool // next token is a key
	}
	var st []*frame
	for {
		t, err := d.Token()
		if err != nil {
			return false
		}
		switch x := t.(type) {
		case json.Delim:
			switch x {
			case '{':
				st = append(st, &frame{obj: true, keys: map[string]bool{}, key: true})
				continue
			case '[':
				st = append(st, &frame{})
				continue
			default:
				st = st[:len(st)-1]
			}
		case string:
			if len(st) > 0 && st[len(st)-1].obj && st[len(st)-1].key {
				f := st[len(st)-1]
				if f.keys[x] {
					return true
				}
				f.keys[x] = true
				f.key = false
				continue
			}
		}
		if len(st) > 0 && st[len(st)-1].obj {
			st[len(st)-1].key = true
		}
	}
}

type parser struct {
	toks  []token
	i     int
	undet string
}

func (p *parser) peek() token { return p.toks[p.i] }
func (p *parser) peek2() token {
	if p.i+1 < len(p.toks) {
		return p.toks[p.i+1]
	}
	return p.toks[len(p.toks)-1]
}
func (p *parser) next() token {
	t := p.toks[p.i]
	if t.k != tEOF {
		p.i++
	}
	return t
}
func (p *parser) isOp(s string) bool { t := p.peek(); return t.k == tOp && t.s == s }
func (p *parser) expectOp(s string) {
	if !p.isOp(s) {
		panic(outErr{fmt.Sprintf("expected %q at %d", s, p.peek().pos)})
	}
	p.next()
}
func (p *parser) doubt(r string) {
	if p.undet == "" {
		p.undet = r
	}
}

// expr parses a binary-operator expression whose operators bind tighter than min.
func (p *parser) expr(min int) Expr {
	left := p.unary()
	for {
		t := p.peek()
		if t.k != tOp {
			break
		}
		op := t.s
		if op == "×" {
			op = "*"
		}
		pr := Prec(op)
		if pr == 0 || pr <= min {
			break
		}
		p.next()
		right := p.expr(pr)
		left = &Binary{Op: op, L: left, R: right}
	}
	return left
}

func (p *parser) unary() Expr {
	t := p.peek()
	if t.k == tOp && (t.s == "!" || t.s == "-" || t.s == "+") {
		p.next()
		// operand
		nt := p.peek()
		if nt.k == tOp && (nt.s == "!" || nt.s == "-" || nt.s == "+") {
			return &Unary{Op: t.s, X: p.unary()}
		}
		if nt.k == tIdent && nt.s == "let" {
			// how far a let-expression under a unary operator extends is not
			// pinned; neither accept nor reject
			panic(undetErr{"unary-before-let"})
		}
		c := p.chainExpr(true)
		return &Unary{Op: t.s, X: c}
	}
	if t.k == tIdent && t.s == "let" && p.peek2().k == tVar {
		return p.let()
	}
	return p.chainExpr(false)
}

func (p *parser) let() Expr {
	p.next() // let
	l := &Let{}
	for {
		v := p.next()
		if v.k != tVar {
			panic(outErr{"expected variable in let"})
		}
		p.expectOp("=")
		x := p.expr(0)
		l.Names = append(l.Names, v.s)
		l.Vals = append(l.Vals, x)
		if p.isOp(",") {
			p.next()
			continue
		}
		break
	}
	t := p.next()
	if t.k != tIdent || t.s != "in" {
		panic(outErr{"expected 'in'"})
	}
	l.Body = p.expr(0)
	return l
}

// chainExpr parses head + steps. underUnary: a multi-step chain directly under
// a unary operator is not pinned by the grammar.
func (p *parser) chainExpr(underUnary bool) Expr {
	c := &Chain{}
	t := p.peek()
	switch t.k {
	case tIdent:
		if t.s == "let" || t.s == "in" {
			p.doubt("keyword-as-identifier")
		}
		p.next()
		if p.isOp("(") {
			c.Head = Head{Kind: HCall, Name: t.s, Args: p.args()}
		} else {
			c.Head = Head{Kind: HField, Name: t.s}
		}
	case tQuoted:
		p.next()
		c.Head = Head{Kind: HField, Name: t.s}
	case tRaw:
		p.next()
		c.Head = Head{Kind: HRaw, Raw: t.s}
	case tLiteral:
		p.next()
		c.Head = Head{Kind: HLiteral, Lit: t.lit}
	case tVar:
		p.next()
		c.Head = Head{Kind: HVar, Name: t.s}
	case tRoot:
		p.next()
		c.Head = Head{Kind: HRoot}
	case tCurrent:
		p.next()
		c.Head = Head{Kind: HCurrent}
	case tOp:
		switch t.s {
		case "(":
			p.next()
			x := p.expr(0)
			p.expectOp(")")
			c.Head = Head{Kind: HParen, X: x}
		case "{":
			p.next()
			keys, items := p.hashBody()
			c.Head = Head{Kind: HMultiHash, Keys: keys, Items: items}
		case "[":
			n := p.peek2()
			if n.k == tInt || (n.k == tOp && n.s == ":") {
				c.Head = Head{Kind: HImplicit}
				c.Steps = append(c.Steps, p.bracket())
			} else {
				p.next()
				c.Head = Head{Kind: HMultiList, Items: p.listBody()}
			}
		case "[?", "[]", "[*]":
			c.Head = Head{Kind: HImplicit}
			c.Steps = append(c.Steps, p.bracket())
		case "*":
			p.next()
			c.Head = Head{Kind: HImplicit}
			c.Steps = append(c.Steps, Step{Kind: SStar})
		case ".*":
			panic(outErr{"unexpected .*"})
		default:
			panic(outErr{fmt.Sprintf("unexpected %q at %d", t.s, t.pos)})
		}
	default:
		panic(outErr{fmt.Sprintf("unexpected token at %d", t.pos)})
	}
	nsteps0 := len(c.Steps)
	for {
		t := p.peek()
		if t.k != tOp {
			break
		}
		switch t.s {
		case ".":
			p.next()
			n := p.peek()
			switch {
			case n.k == tIdent:
				if n.s == "let" || n.s == "in" {
					p.doubt("keyword-as-identifier")
				}
				p.next()
				if p.isOp("(") {
					c.Steps = append(c.Steps, Step{Kind: SCall, Name: n.s, Args: p.args()})
				} else {
					c.Steps = append(c.Steps, Step{Kind: SField, Name: n.s})
				}
			case n.k == tQuoted:
				p.next()
				c.Steps = append(c.Steps, Step{Kind: SField, Name: n.s})
			case n.k == tOp && n.s == "[":
				p.next()
				c.Steps = append(c.Steps, Step{Kind: SMultiList, Items: p.listBody()})
			case n.k == tOp && n.s == "{":
				p.next()
				keys, items := p.hashBody()
				c.Steps = append(c.Steps, Step{Kind: SMultiHash, Keys: keys, Items: items})
			case n.k == tOp && n.s == "*":
				p.next()
				p.doubt("whitespace-inside-.*")
				c.Steps = append(c.Steps, Step{Kind: SStar})
			case n.k == tOp && (n.s == "[*]" || n.s == "[]" || n.s == "[?"):
				// "a.[*]" etc: '.' must be followed by identifier, multi-select,
				// function or '*'.  ".[*]" could be read as a multi-select list
				// containing a bare wildcard.
				if n.s == "[*]" {
					// corpus (syntax.json): foo.[*] is a multi-select list of one wildcard
					p.next()
					c.Steps = append(c.Steps, Step{Kind: SMultiList, Items: []Expr{&Chain{Head: Head{Kind: HImplicit}, Steps: []Step{{Kind: SStar}}}}})
				} else {
					panic(outErr{"bad token after ."})
				}
			default:
				panic(outErr{fmt.Sprintf("bad token after . at %d", n.pos)})
			}
		case ".*":
			p.next()
			c.Steps = append(c.Steps, Step{Kind: SStar})
		case "[", "[?", "[]", "[*]":
			if t.s == "[" {
				n := p.peek2()
				if !(n.k == tInt || (n.k == tOp && n.s == ":")) {
					if n.k == tOp && n.s == "*" {
						// "[ *]" / "[* ]": white space inside the unit
						p.doubt("whitespace-inside-[*]")
						p.next()
						p.next()
						p.expectOp("]")
						c.Steps = append(c.Steps, Step{Kind: SListStar})
						continue
					}
					if n.k == tOp && n.s == "]" {
						p.doubt("whitespace-inside-[]")
						p.next()
						p.next()
						c.Steps = append(c.Steps, Step{Kind: SFlatten})
						continue
					}
					panic(outErr{fmt.Sprintf("bad bracket specifier at %d", t.pos)})
				}
			}
			c.Steps = append(c.Steps, p.bracket())
		default:
			goto done
		}
	}
done:
	if underUnary && (len(c.Steps) > 0) {
		_ = nsteps0
		// Indexes, slices and [*] bind tighter than a unary operator in every
		// reading: !a[*] is !(a[*]). For a dot step, a flatten or a filter the
		// readings part ((!a).b, (!a)[] in the reference implementations, whose
		// binding powers for these are below that of "!"; !(a.b) by "selectors
		// bind tighter still"): not pinned.
		for _, st := range c.Steps {
			switch st.Kind {
			case SIndex, SSlice, SListStar:
			default:
				p.doubt("unary-applied-to-chain")
			}
		}
	}
	return c
}

// bracket parses [n], [a:b:c], [*], [], [?cond] starting at the bracket token.
func (p *parser) bracket() Step {
	t := p.next()
	switch t.s {
	case "[*]":
		return Step{Kind: SListStar}
	case "[]":
		return Step{Kind: SFlatten}
	case "[?":
		cond := p.expr(0)
		p.expectOp("]")
		return Step{Kind: SFilter, Cond: cond}
	}
	// "[" then int or ":"
	var parts [3]*int64
	idx := 0
	colons := 0
	for {
		n := p.peek()
		if n.k == tInt {
			if parts[idx] != nil {
				panic(outErr{"two integers in a row"})
			}
			v := n.n
			parts[idx] = &v
			p.next()
			continue
		}
		if n.k == tOp && n.s == ":" {
			colons++
			idx++
			if idx > 2 {
				panic(outErr{"too many colons"})
			}
			p.next()
			continue
		}
		if n.k == tOp && n.s == "]" {
			p.next()
			break
		}
		panic(outErr{fmt.Sprintf("bad slice/index at %d", n.pos)})
	}
	if colons == 0 {
		if parts[0] == nil {
			panic(outErr{"empty brackets"})
		}
		return Step{Kind: SIndex, Index: *parts[0]}
	}
	return Step{Kind: SSlice, Start: parts[0], Stop: parts[1], Stride: parts[2]}
}

func (p *parser) listBody() []Expr {
	// after "["
	var items []Expr
	if t := p.peek(); t.k == tOp && t.s == "*" && p.peek2().k == tOp && p.peek2().s == "]" {
		// "[ * ]" with white space: a multi-select of one wildcard or [*]?
		p.doubt("whitespace-inside-[*]")
	}
	for {
		items = append(items, p.expr(0))
		if p.isOp(",") {
			p.next()
			continue
		}
		p.expectOp("]")
		return items
	}
}

func (p *parser) hashBody() ([]string, []Expr) {
	var keys []string
	var items []Expr
	for {
		k := p.next()
		if k.k != tIdent && k.k != tQuoted {
			panic(outErr{"bad key in multi-select hash"})
		}
		if k.k == tIdent && (k.s == "let" || k.s == "in") {
			p.doubt("keyword-as-identifier")
		}
		p.expectOp(":")
		keys = append(keys, k.s)
		items = append(items, p.expr(0))
		if p.isOp(",") {
			p.next()
			continue
		}
		p.expectOp("}")
		return keys, items
	}
}

func (p *parser) args() []Arg {
	p.expectOp("(")
	var args []Arg
	if p.isOp(")") {
		p.next()
		return args
	}
	for {
		a := Arg{}
		if p.isOp("&") {
			p.next()
			a.Ref = true
		}
		a.X = p.expr(0)
		args = append(args, a)
		if p.isOp(",") {
			p.next()
			continue
		}
		p.expectOp(")")
		return args
	}
}

// Normalize removes step-less parenthesised heads (they are only grouping).
func Normalize(e Expr) Expr {
	switch e := e.(type) {
	case *Binary:
		return &Binary{Op: e.Op, L: Normalize(e.L), R: Normalize(e.R)}
	case *Unary:
		return &Unary{Op: e.Op, X: Normalize(e.X)}
	case *Let:
		n := &Let{Names: e.Names, Body: Normalize(e.Body)}
		for _, v := range e.Vals {
			n.Vals = append(n.Vals, Normalize(v))
		}
		return n
	case *Chain:
		if e.Head.Kind == HParen && len(e.Steps) == 0 {
			return Normalize(e.Head.X)
		}
		n := &Chain{Head: normHead(e.Head)}
		for _, s := range e.Steps {
			ns := s
			ns.Args = normArgs(s.Args)
			ns.Items = normList(s.Items)
			if s.Cond != nil {
				ns.Cond = Normalize(s.Cond)
			}
			n.Steps = append(n.Steps, ns)
		}
		return n
	}
	return e
}

func normHead(h Head) Head {
	h.Args = normArgs(h.Args)
	h.Items = normList(h.Items)
	if h.X != nil {
		h.X = Normalize(h.X)
	}
	return h
}

func normArgs(a []Arg) []Arg {
	if a == nil {
		return nil
	}
	out := make([]Arg, len(a))
	for i, x := range a {
		out[i] = Arg{Ref: x.Ref, X: Normalize(x.X)}
	}
	return out
}

func normList(a []Expr) []Expr {
	if a == nil {
		return nil
	}
	out := make([]Expr, len(a))
	for i, x := range a {
		out[i] = Normalize(x)
	}
	return out
}

// Dump renders a structural, spelling-independent form used to compare ASTs.
func Dump(e Expr) string {
	var b strings.Builder
	dump(&b, e)
	return b.String()
}

func dump(b *strings.Builder, e Expr) {
	switch e := e.(type) {
	case *Binary:
		fmt.Fprintf(b, "(%s ", e.Op)
		dump(b, e.L)
		b.WriteByte(' ')
		dump(b, e.R)
		b.WriteByte(')')
	case *Unary:
		fmt.Fprintf(b, "(u%s ", e.Op)
		dump(b, e.X)
		b.WriteByte(')')
	case *Let:
		b.WriteString("(let")
		for i, n := range e.Names {
			fmt.Fprintf(b, " $%s=", n)
			dump(b, e.Vals[i])
		}
		b.WriteString(" in ")
		dump(b, e.Body)
		b.WriteByte(')')
	case *Chain:
		b.WriteString("<")
		h := e.Head
		switch h.Kind {
		case HField:
			fmt.Fprintf(b, "f:%q", h.Name)
		case HLiteral:
			fmt.Fprintf(b, "lit:%s", jv.Canon(h.Lit, false))
		case HRaw:
			fmt.Fprintf(b, "lit:%s", jv.Canon(jv.VStr(h.Raw), false))
		case HCurrent:
			b.WriteString("@")
		case HRoot:
			b.WriteString("$")
		case HVar:
			fmt.Fprintf(b, "$%s", h.Name)
		case HCall:
			fmt.Fprintf(b, "call:%s", h.Name)
			dumpArgs(b, h.Args)
		case HParen:
			b.WriteString("paren:")
			dump(b, h.X)
		case HMultiList:
			b.WriteString("list")
			dumpList(b, h.Items)
		case HMultiHash:
			b.WriteString("hash")
			dumpHash(b, h.Keys, h.Items)
		case HImplicit:
			b.WriteString("_")
		}
		for _, s := range e.Steps {
			b.WriteByte(' ')
			switch s.Kind {
			case SField:
				fmt.Fprintf(b, ".%q", s.Name)
			case SCall:
				fmt.Fprintf(b, ".call:%s", s.Name)
				dumpArgs(b, s.Args)
			case SMultiList:
				b.WriteString(".list")
				dumpList(b, s.Items)
			case SMultiHash:
				b.WriteString(".hash")
				dumpHash(b, s.Keys, s.Items)
			case SStar:
				b.WriteString(".*")
			case SIndex:
				fmt.Fprintf(b, "[%d]", s.Index)
			case SSlice:
				f := func(p *int64) string {
					if p == nil {
						return ""
					}
					return strconv.FormatInt(*p, 10)
				}
				fmt.Fprintf(b, "[%s:%s:%s]", f(s.Start), f(s.Stop), f(s.Stride))
			case SListStar:
				b.WriteString("[*]")
			case SFlatten:
				b.WriteString("[]")
			case SFilter:
				b.WriteString("[?")
				dump(b, s.Cond)
				b.WriteString("]")
			}
		}
		b.WriteString(">")
	}
}

func dumpArgs(b *strings.Builder, args []Arg) {
	b.WriteByte('(')
	for i, a := range args {
		if i > 0 {
			b.WriteByte(',')
		}
		if a.Ref {
			b.WriteByte('&')
		}
		dump(b, a.X)
	}
	b.WriteByte(')')
}

func dumpList(b *strings.Builder, items []Expr) {
	b.WriteByte('[')
	for i, x := range items {
		if i > 0 {
			b.WriteByte(',')
		}
		dump(b, x)
	}
	b.WriteByte(']')
}

func dumpHash(b *strings.Builder, keys []string, items []Expr) {
	b.WriteByte('{')
	for i, x := range items {
		if i > 0 {
			b.WriteByte(',')
		}
		fmt.Fprintf(b, "%q:", keys[i])
		dump(b, x)
	}
	b.WriteByte('}')
}

// TokenSpans splits src into the source text of its tokens (white space
// between tokens dropped). ok=false if the reference lexer rejects src.
func TokenSpans(src string) (spans []string, ok bool) {
	defer func() {
		if r := recover(); r != nil {
			spans, ok = nil, false
		}
	}()
	if !utf8.ValidString(src) {
		return nil, false
	}
	toks, _ := lex(src)
	for i := 0; i+1 < len(toks); i++ {
		end := toks[i+1].pos
		s := src[toks[i].pos:end]
		s = strings.TrimRight(s, " \t\r\n")
		spans = append(spans, s)
	}
	return spans, true
}
