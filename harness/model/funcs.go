package model

import (
	"math/big"
	"sort"
	"strings"
	"unicode/utf8"

	"verif/harness/ast"
	"verif/harness/jv"
)

var (
	maxI64 = new(big.Int).SetInt64(1<<63 - 1)
	minI64 = new(big.Int).SetInt64(-1 << 63)
)

// intArg interprets v as an integer argument. Returns ok=false after having
// recorded the fault (invalid-type if not a number, invalid-value if not
// integral) or the undetermined reason.
func (in *interp) intArg(v jv.Val) (int64, bool) {
	if v.K != jv.Num {
		in.fail(InvType)
		return 0, false
	}
	if !numOK(v.R) {
		in.undet("number-out-of-decimal128")
		return 0, false
	}
	if !v.R.IsInt() {
		in.fail(InvValue)
		return 0, false
	}
	n := v.R.Num()
	if n.Cmp(maxI64) > 0 || n.Cmp(minI64) < 0 {
		in.undet("integer-beyond-int64")
		return 0, false
	}
	return n.Int64(), true
}

func (in *interp) call(name string, args []ast.Arg, cur jv.Val, sc *scope, pdepth int) jv.Val {
	in.ev.FuncCalls++
	sig := Sigs[name]
	vals := make([]jv.Val, len(args))
	argFailed := make([]bool, len(args))
	for i, a := range args {
		if sig.IsRef(i) {
			continue
		}
		before := in.f
		in.f = fault{}
		vals[i] = in.eval(a.X, cur, sc, pdepth)
		argFailed[i] = in.failed()
		mine := in.f
		in.f = before
		in.f.err |= mine.err
		if in.f.undet == "" {
			in.f.undet = mine.undet
		}
		if name == "not_null" && !in.failed() && vals[i].K != jv.Null {
			// whether the remaining arguments are evaluated at all (and may
			// fail) once a non-null one is found is not pinned
			saved := in.f
			for _, b := range args[i+1:] {
				in.eval(b.X, cur, sc, pdepth)
			}
			if in.failed() {
				in.f = saved
				return in.undet("not_null-lazy-arguments")
			}
			return vals[i]
		}
	}
	apply := func(i int) func(jv.Val) jv.Val {
		return func(x jv.Val) jv.Val {
			in.ev.ExprRefCalls++
			return in.move(func() jv.Val { return in.eval(args[i].X, x, sc, pdepth) })
		}
	}
	if in.failed() {
		if len(args) >= 2 && in.f.undet == "" && in.othersMayFail(name, vals, argFailed, apply) {
			// an argument failed; an implementation may validate the other
			// arguments first (or evaluate them lazily), so a type or value
			// fault of another argument may be reported instead -- when the
			// other arguments have one
			in.f.err |= InvType | InvValue
		}
		return jv.VNull()
	}
	v := in.builtin(name, vals, apply)
	if in.failed() {
		// Within one call an argument whose type is outside the signature is
		// reported before any range check of another argument (signature
		// validation precedes the function body; corpus:
		// find_first(string, 'string', `1.3`, '2') -> invalid-type).
		switch name {
		case "find_first", "find_last", "pad_left", "pad_right", "replace", "split":
			if in.f.err&InvType != 0 && in.f.err&InvValue != 0 {
				in.f.err &^= InvValue
			}
		}
		return jv.VNull()
	}
	return v
}

// argProbes stand in for an argument whose evaluation failed.
var argProbes = []string{`null`, `true`, `0`, `1`, `""`, `"a"`, `[]`, `[1]`, `["a"]`, `{}`, `{"a":1}`}

// othersMayFail: some argument failed; do the remaining arguments have a
// fault of their own? They do not if the call succeeds for some value put in
// place of the failed argument.
func (in *interp) othersMayFail(name string, vals []jv.Val, argFailed []bool, apply func(int) func(jv.Val) jv.Val) bool {
	at := -1
	for i, f := range argFailed {
		if f {
			if at >= 0 {
				return true // several failed arguments: not tracked
			}
			at = i
		}
	}
	if at < 0 {
		return true
	}
	saved, savedEv := in.f, *in.ev
	defer func() { in.f, *in.ev = saved, savedEv }()
	for _, p := range argProbes {
		probe := append([]jv.Val{}, vals...)
		probe[at] = jv.MustParseJSON(p)
		in.f = fault{}
		in.builtin(name, probe, apply)
		if !in.failed() {
			return false
		}
	}
	return true
}

func allKind(a []jv.Val, k jv.Kind) bool {
	for _, e := range a {
		if e.K != k {
			return false
		}
	}
	return true
}

func runes(s string) []rune { return []rune(s) }

func (in *interp) str(v jv.Val) (string, bool) {
	if v.K != jv.Str {
		in.fail(InvType)
		return "", false
	}
	if v.T == jv.JSONOf {
		in.undet("consumes-to_string-text")
		return "", false
	}
	if !utf8.ValidString(v.S) {
		in.undet("invalid-utf8-string")
		return "", false
	}
	return v.S, true
}

func (in *interp) num(v jv.Val) (*big.Rat, bool) {
	if v.K != jv.Num {
		in.fail(InvType)
		return nil, false
	}
	if !numOK(v.R) {
		in.undet("number-out-of-decimal128")
		return nil, false
	}
	return v.R, true
}

func (in *interp) arr(v jv.Val) ([]jv.Val, bool) {
	if v.K != jv.Arr {
		in.fail(InvType)
		return nil, false
	}
	return v.A, true
}

func ratFloor(r *big.Rat) *big.Rat {
	q := new(big.Int)
	m := new(big.Int)
	q.DivMod(r.Num(), r.Denom(), m) // Euclidean: m >= 0, so q = floor
	return new(big.Rat).SetInt(q)
}

func ratCeil(r *big.Rat) *big.Rat {
	f := ratFloor(r)
	if f.Cmp(r) == 0 {
		return f
	}
	return f.Add(f, big.NewRat(1, 1))
}

func isASCII(s string) bool {
	for i := 0; i < len(s); i++ {
		if s[i] >= 0x80 {
			return false
		}
	}
	return true
}

// certainWS: characters every implementation treats as white space.
func certainWS(r rune) bool {
	switch r {
	case ' ', '\t', '\n', '\r', '\v', '\f', 0x85, 0x3000, 0x2028, 0x2029, 0x00A0, 0x1680, 0x202F, 0x205F:
		return true
	}
	return r >= 0x2000 && r <= 0x200A
}

// doubtfulWS: characters on which "white space" definitions disagree.
func doubtfulWS(r rune) bool {
	return (r >= 0x1c && r <= 0x1f) || r == 0x180e || r == 0x200b || r == 0xfeff
}

func (in *interp) trimWS(s string, left, right bool) jv.Val {
	rs := runes(s)
	i, j := 0, len(rs)
	if left {
		for i < j && certainWS(rs[i]) {
			i++
		}
		if i < j && doubtfulWS(rs[i]) {
			return in.undet("trim-doubtful-whitespace")
		}
	}
	if right {
		for j > i && certainWS(rs[j-1]) {
			j--
		}
		if j > i && doubtfulWS(rs[j-1]) {
			return in.undet("trim-doubtful-whitespace")
		}
	}
	return jv.VStr(string(rs[i:j]))
}

func (in *interp) trimFn(vals []jv.Val, left, right bool) jv.Val {
	s, ok := in.str(vals[0])
	if !ok {
		return jv.VNull()
	}
	if len(vals) == 1 {
		return in.trimWS(s, left, right)
	}
	cs, ok := in.str(vals[1])
	if !ok {
		return jv.VNull()
	}
	if cs == "" {
		return in.trimWS(s, left, right)
	}
	set := map[rune]bool{}
	for _, r := range cs {
		set[r] = true
	}
	rs := runes(s)
	i, j := 0, len(rs)
	if left {
		for i < j && set[rs[i]] {
			i++
		}
	}
	if right {
		for j > i && set[rs[j-1]] {
			j--
		}
	}
	return jv.VStr(string(rs[i:j]))
}

// runeIndex finds sub in s (both rune slices) starting the scan at from,
// returning the first index >= from with a full match ending <= limit.
func runeMatchAt(s, sub []rune, i int) bool {
	if i < 0 || i+len(sub) > len(s) {
		return false
	}
	for k := range sub {
		if s[i+k] != sub[k] {
			return false
		}
	}
	return true
}

func (in *interp) find(vals []jv.Val, last bool) jv.Val {
	s, ok1 := in.str(vals[0])
	sub, ok2 := in.str(vals[1])
	var start, end int64
	haveStart, haveEnd := false, false
	ok3, ok4 := true, true
	if len(vals) > 2 {
		start, ok3 = in.intArg(vals[2])
		haveStart = true
	}
	if len(vals) > 3 {
		end, ok4 = in.intArg(vals[3])
		haveEnd = true
	}
	if !(ok1 && ok2 && ok3 && ok4) {
		return jv.VNull()
	}
	rs, rsub := runes(s), runes(sub)
	n := int64(len(rs))
	if len(rs) == 0 || len(rsub) == 0 {
		return jv.VNull()
	}
	lo, hi := int64(0), n
	if haveStart {
		if start < 0 {
			return in.undet("find-negative-start")
		}
		lo = start
	}
	if haveEnd {
		if end < 0 {
			return in.undet("find-negative-end")
		}
		if end < hi {
			hi = end
		}
	}
	if lo > n || lo >= hi {
		return jv.VNull()
	}
	if !last {
		for i := lo; i+int64(len(rsub)) <= hi; i++ {
			if runeMatchAt(rs, rsub, int(i)) {
				return jv.VInt(i)
			}
		}
	} else {
		for i := hi - int64(len(rsub)); i >= lo; i-- {
			if runeMatchAt(rs, rsub, int(i)) {
				return jv.VInt(i)
			}
		}
	}
	return jv.VNull()
}

const padBudget = 1100000

func (in *interp) pad(vals []jv.Val, left bool) jv.Val {
	s, ok1 := in.str(vals[0])
	w, ok2 := in.intArg(vals[1])
	p := " "
	ok3 := true
	if len(vals) > 2 {
		p, ok3 = in.str(vals[2])
	}
	if !(ok1 && ok2 && ok3) {
		return jv.VNull()
	}
	bad := false
	if w < 0 {
		in.fail(InvValue)
		bad = true
	}
	if utf8.RuneCountInString(p) != 1 {
		in.fail(InvValue)
		bad = true
	}
	if bad {
		return jv.VNull()
	}
	n := int64(utf8.RuneCountInString(s))
	if w <= n {
		return jv.VStr(s)
	}
	// pads get a budget of their own (a little over 2^20 characters): widths
	// just above a million are within reach of a generated case, and the
	// result is cheap to build and to compare
	if w-n > int64(in.budget) && w-n > padBudget {
		return in.undet("result-too-large")
	}
	padding := strings.Repeat(p, int(w-n))
	if left {
		return jv.VStr(padding + s)
	}
	return jv.VStr(s + padding)
}

// keyKind classifies sort/extremum keys: all numbers, all strings, or bad.
func (in *interp) keysOf(a []jv.Val, f func(jv.Val) jv.Val) ([]jv.Val, jv.Kind, bool) {
	keys := make([]jv.Val, 0, len(a))
	applyFailed := false
	for _, e := range a {
		if f != nil {
			k := in.iso(func() jv.Val { return f(e) })
			if in.failed() {
				// keep going: the faults of all elements are collected, and the
				// keys that could be computed are still type-checked below
				applyFailed = true
				continue
			}
			keys = append(keys, k)
		} else {
			keys = append(keys, e)
		}
	}
	if applyFailed {
		for _, x := range keys {
			if (x.K != jv.Num && x.K != jv.Str) || x.K != keys[0].K {
				in.fail(InvType)
			}
		}
		return nil, 0, false
	}
	if len(keys) == 0 {
		return keys, jv.Null, true
	}
	k := keys[0].K
	if k != jv.Num && k != jv.Str {
		in.fail(InvType)
		return nil, 0, false
	}
	for _, x := range keys {
		if x.K != k {
			in.fail(InvType)
			return nil, 0, false
		}
		if k == jv.Num && !numOK(x.R) {
			in.undet("number-out-of-decimal128")
			return nil, 0, false
		}
		if k == jv.Str && x.T == jv.JSONOf {
			in.undet("consumes-to_string-text")
			return nil, 0, false
		}
		if k == jv.Str && !utf8.ValidString(x.S) {
			in.undet("invalid-utf8-string")
			return nil, 0, false
		}
	}
	return keys, k, true
}

// cmpKey compares two keys of the same kind: numbers by value, strings by
// code point (byte order of valid UTF-8 equals code point order).
func cmpKey(a, b jv.Val) int {
	if a.K == jv.Num {
		return a.R.Cmp(b.R)
	}
	return strings.Compare(a.S, b.S)
}

func (in *interp) builtin(name string, v []jv.Val, apply func(int) func(jv.Val) jv.Val) jv.Val {
	switch name {
	case "abs":
		r, ok := in.num(v[0])
		if !ok {
			return jv.VNull()
		}
		return jv.VRat(new(big.Rat).Abs(r))
	case "ceil":
		r, ok := in.num(v[0])
		if !ok {
			return jv.VNull()
		}
		return jv.VRat(ratCeil(r))
	case "floor":
		r, ok := in.num(v[0])
		if !ok {
			return jv.VNull()
		}
		return jv.VRat(ratFloor(r))
	case "avg", "sum":
		a, ok := in.arr(v[0])
		if !ok {
			return jv.VNull()
		}
		if !allKind(a, jv.Num) {
			return in.fail(InvType)
		}
		if len(a) == 0 {
			if name == "avg" {
				return jv.VNull()
			}
			return jv.VInt(0)
		}
		sum := new(big.Rat)
		for _, e := range a {
			if !numOK(e.R) {
				return in.undet("number-out-of-decimal128")
			}
			sum.Add(sum, e.R)
			if !numOK(sum) {
				// a partial sum that needs rounding: order and rounding matter
				return in.undet("inexact-arithmetic")
			}
		}
		if name == "avg" {
			sum.Quo(sum, new(big.Rat).SetInt64(int64(len(a))))
			if !numOK(sum) {
				return in.undet("inexact-arithmetic")
			}
		}
		return jv.VRat(sum)
	case "contains":
		switch v[0].K {
		case jv.Str:
			if v[1].K != jv.Str {
				return in.undet("contains-string-nonstring")
			}
			if v[0].T == jv.JSONOf || v[1].T == jv.JSONOf {
				return in.undet("consumes-to_string-text")
			}
			if !utf8.ValidString(v[0].S) || !utf8.ValidString(v[1].S) {
				return in.undet("invalid-utf8-string")
			}
			return jv.VBool(strings.Contains(v[0].S, v[1].S))
		case jv.Arr:
			for _, e := range v[0].A {
				eq, ok := in.equal(e, v[1])
				if !ok {
					return jv.VNull()
				}
				if eq {
					return jv.VBool(true)
				}
			}
			return jv.VBool(false)
		}
		return in.fail(InvType)
	case "ends_with", "starts_with":
		s, ok1 := in.str(v[0])
		p, ok2 := in.str(v[1])
		if !ok1 || !ok2 {
			return jv.VNull()
		}
		if name == "ends_with" {
			return jv.VBool(strings.HasSuffix(s, p))
		}
		return jv.VBool(strings.HasPrefix(s, p))
	case "find_first":
		return in.find(v, false)
	case "find_last":
		return in.find(v, true)
	case "from_items":
		a, ok := in.arr(v[0])
		if !ok {
			return jv.VNull()
		}
		ms := make([]jv.Member, 0, len(a))
		seen := map[string]bool{}
		dup := false
		for _, e := range a {
			if e.K != jv.Arr {
				in.fail(InvType)
				continue
			}
			if len(e.A) != 2 || e.A[0].K != jv.Str {
				in.fail(InvValue)
				continue
			}
			if e.A[0].T == jv.JSONOf {
				return in.undet("consumes-to_string-text")
			}
			if topOrderMatters(e) {
				return in.undet("from_items-unordered-pair")
			}
			if seen[e.A[0].S] {
				dup = true
			}
			seen[e.A[0].S] = true
			ms = append(ms, jv.Member{K: e.A[0].S, V: e.A[1]})
		}
		if in.failed() {
			return jv.VNull()
		}
		if dup && topOrderMatters(v[0]) {
			return in.undet("from_items-unordered-duplicates")
		}
		return jv.VObj(ms)
	case "group_by":
		a, ok := in.arr(v[0])
		if !ok {
			return jv.VNull()
		}
		if len(a) == 0 {
			return in.undet("group_by-empty")
		}
		f := apply(1)
		groups := map[string][]jv.Val{}
		for _, e := range a {
			k := in.iso(func() jv.Val { return f(e) })
			if in.failed() {
				continue
			}
			if k.K == jv.Null {
				return in.undet("group_by-null-key")
			}
			if k.K != jv.Str {
				in.fail(InvType)
				continue
			}
			if k.T == jv.JSONOf {
				return in.undet("consumes-to_string-text")
			}
			groups[k.S] = append(groups[k.S], e)
		}
		if in.failed() {
			return jv.VNull()
		}
		ms := make([]jv.Member, 0, len(groups))
		for _, k := range sortedKeysA(groups) {
			ms = append(ms, jv.Member{K: k, V: jv.Val{K: jv.Arr, A: groups[k], Unordered: v[0].Unordered}})
		}
		return jv.VObj(ms)
	case "items":
		if v[0].K != jv.Obj {
			return in.fail(InvType)
		}
		out := make([]jv.Val, len(v[0].O))
		for i, m := range v[0].O {
			out[i] = jv.VArr([]jv.Val{jv.VStr(m.K), m.V})
		}
		in.ev.UnorderedMade++
		return jv.VUArr(out)
	case "keys":
		if v[0].K != jv.Obj {
			return in.fail(InvType)
		}
		out := make([]jv.Val, len(v[0].O))
		for i, m := range v[0].O {
			out[i] = jv.VStr(m.K)
		}
		in.ev.UnorderedMade++
		return jv.VUArr(out)
	case "values":
		if v[0].K != jv.Obj {
			return in.fail(InvType)
		}
		out := make([]jv.Val, len(v[0].O))
		for i, m := range v[0].O {
			out[i] = m.V
		}
		in.ev.UnorderedMade++
		return jv.VUArr(out)
	case "join":
		g, ok1 := in.str(v[0])
		a, ok2 := in.arr(v[1])
		if !ok1 || !ok2 {
			return jv.VNull()
		}
		if !allKind(a, jv.Str) {
			return in.fail(InvType)
		}
		if topOrderMatters(v[1]) {
			return in.undet("join-of-unordered")
		}
		if jv.HasLoose(v[1]) {
			return in.undet("consumes-to_string-text")
		}
		parts := make([]string, len(a))
		for i, e := range a {
			parts[i] = e.S
		}
		return jv.VStr(strings.Join(parts, g))
	case "length":
		switch v[0].K {
		case jv.Str:
			if v[0].T == jv.JSONOf {
				return in.undet("consumes-to_string-text")
			}
			if !utf8.ValidString(v[0].S) {
				return in.undet("invalid-utf8-string")
			}
			return jv.VInt(int64(utf8.RuneCountInString(v[0].S)))
		case jv.Arr:
			return jv.VInt(int64(len(v[0].A)))
		case jv.Obj:
			return jv.VInt(int64(len(v[0].O)))
		}
		return in.fail(InvType)
	case "lower", "upper":
		s, ok := in.str(v[0])
		if !ok {
			return jv.VNull()
		}
		if !caseMappingPinned(s) {
			return in.undet("case-mapping-special")
		}
		if name == "lower" {
			return jv.VStr(strings.ToLower(s))
		}
		return jv.VStr(strings.ToUpper(s))
	case "map":
		a, ok := in.arr(v[1])
		if !ok {
			return jv.VNull()
		}
		f := apply(0)
		out := make([]jv.Val, len(a))
		for i, e := range a {
			out[i] = in.iso(func() jv.Val { return f(e) })
		}
		if in.failed() {
			return jv.VNull()
		}
		return jv.Val{K: jv.Arr, A: out, Unordered: v[1].Unordered}
	case "max", "min":
		a, ok := in.arr(v[0])
		if !ok {
			return jv.VNull()
		}
		keys, _, ok := in.keysOf(a, nil)
		if !ok {
			return jv.VNull()
		}
		if len(keys) == 0 {
			return jv.VNull()
		}
		best := keys[0]
		for _, k := range keys[1:] {
			c := cmpKey(k, best)
			if (name == "max" && c > 0) || (name == "min" && c < 0) {
				best = k
			}
		}
		return best
	case "max_by", "min_by":
		a, ok := in.arr(v[0])
		if !ok {
			return jv.VNull()
		}
		keys, _, ok := in.keysOf(a, apply(1))
		if !ok {
			return jv.VNull()
		}
		if len(keys) == 0 {
			return jv.VNull()
		}
		bi := 0
		for i, k := range keys[1:] {
			c := cmpKey(k, keys[bi])
			if (name == "max_by" && c > 0) || (name == "min_by" && c < 0) {
				bi = i + 1
			}
		}
		// ties between different elements: which one is returned is not pinned
		for i, k := range keys {
			if i != bi && cmpKey(k, keys[bi]) == 0 && !jv.StrictEqual(a[i], a[bi]) {
				return in.undet("extremum-tie")
			}
		}
		return a[bi]
	case "merge":
		ms := []jv.Member{}
		for _, x := range v {
			if x.K != jv.Obj {
				return in.fail(InvType)
			}
			ms = append(ms, x.O...)
		}
		return jv.VObj(ms)
	case "not_null":
		for _, x := range v {
			if x.K != jv.Null {
				return x
			}
		}
		return jv.VNull()
	case "pad_left":
		return in.pad(v, true)
	case "pad_right":
		return in.pad(v, false)
	case "replace":
		s, ok1 := in.str(v[0])
		old, ok2 := in.str(v[1])
		nw, ok3 := in.str(v[2])
		cnt := int64(-1)
		ok4 := true
		if len(v) > 3 {
			cnt, ok4 = in.intArg(v[3])
			if ok4 && cnt < 0 {
				in.fail(InvValue)
				ok4 = false
			}
		}
		if !(ok1 && ok2 && ok3 && ok4) {
			return jv.VNull()
		}
		if old == "" {
			return in.undet("replace-empty-old")
		}
		if cnt < 0 || cnt > int64(len(s)) {
			cnt = int64(len(s)) + 1
		}
		out := strings.Replace(s, old, nw, int(cnt))
		if len(out) > in.budget {
			return in.undet("result-too-large")
		}
		return jv.VStr(out)
	case "reverse":
		switch v[0].K {
		case jv.Str:
			if v[0].T == jv.JSONOf {
				return in.undet("consumes-to_string-text")
			}
			if !utf8.ValidString(v[0].S) {
				return in.undet("invalid-utf8-string")
			}
			rs := runes(v[0].S)
			for i, j := 0, len(rs)-1; i < j; i, j = i+1, j-1 {
				rs[i], rs[j] = rs[j], rs[i]
			}
			return jv.VStr(string(rs))
		case jv.Arr:
			n := len(v[0].A)
			out := make([]jv.Val, n)
			for i, e := range v[0].A {
				out[n-1-i] = e
			}
			return jv.Val{K: jv.Arr, A: out, Unordered: v[0].Unordered}
		}
		return in.fail(InvType)
	case "sort":
		a, ok := in.arr(v[0])
		if !ok {
			return jv.VNull()
		}
		keys, _, ok := in.keysOf(a, nil)
		if !ok {
			return jv.VNull()
		}
		out := append([]jv.Val{}, keys...)
		sort.SliceStable(out, func(i, j int) bool { return cmpKey(out[i], out[j]) < 0 })
		return jv.VArr(out)
	case "sort_by":
		a, ok := in.arr(v[0])
		if !ok {
			return jv.VNull()
		}
		keys, _, ok := in.keysOf(a, apply(1))
		if !ok {
			return jv.VNull()
		}
		idx := make([]int, len(a))
		for i := range idx {
			idx[i] = i
		}
		sort.SliceStable(idx, func(i, j int) bool { return cmpKey(keys[idx[i]], keys[idx[j]]) < 0 })
		if topOrderMatters(v[0]) {
			// stability makes the result depend on the input order among ties
			for i := 1; i < len(idx); i++ {
				if cmpKey(keys[idx[i]], keys[idx[i-1]]) == 0 && !jv.StrictEqual(a[idx[i]], a[idx[i-1]]) {
					return in.undet("sort_by-tie-in-unordered")
				}
			}
		}
		out := make([]jv.Val, len(a))
		for i, j := range idx {
			out[i] = a[j]
		}
		return jv.VArr(out)
	case "split":
		s, ok1 := in.str(v[0])
		sep, ok2 := in.str(v[1])
		cnt := int64(-1)
		ok3 := true
		if len(v) > 2 {
			cnt, ok3 = in.intArg(v[2])
			if ok3 && cnt < 0 {
				in.fail(InvValue)
				ok3 = false
			}
		}
		if !(ok1 && ok2 && ok3) {
			return jv.VNull()
		}
		if s == "" {
			if sep == "" && len(v) == 2 {
				return jv.VArr([]jv.Val{})
			}
			return in.undet("split-empty-subject")
		}
		if cnt == 0 {
			return jv.VArr([]jv.Val{jv.VStr(s)})
		}
		var parts []string
		if sep == "" {
			rs := runes(s)
			k := len(rs) - 1 // interior boundaries
			if cnt >= 0 && cnt < int64(k) {
				k = int(cnt)
			}
			for i := 0; i < k; i++ {
				parts = append(parts, string(rs[i]))
			}
			parts = append(parts, string(rs[k:]))
		} else {
			n := -1
			if cnt >= 0 && cnt < int64(len(s)) {
				n = int(cnt) + 1
			}
			parts = strings.SplitN(s, sep, n)
		}
		out := make([]jv.Val, len(parts))
		for i, p := range parts {
			out[i] = jv.VStr(p)
		}
		return jv.VArr(out)
	case "to_array":
		if v[0].K == jv.Arr {
			return v[0]
		}
		return jv.VArr([]jv.Val{v[0]})
	case "to_number":
		switch v[0].K {
		case jv.Num:
			return v[0]
		case jv.Str:
			s := v[0].S
			if v[0].T == jv.JSONOf {
				return in.undet("consumes-to_string-text")
			}
			if jv.IsJSONNumber(s) {
				r, ok := jv.ParseNum(s)
				if !ok || !numOK(r) {
					return in.undet("number-out-of-decimal128")
				}
				return jv.Val{K: jv.Num, R: r, T: s}
			}
			if s == "" {
				return jv.VNull()
			}
			for _, c := range s {
				if !(c >= '0' && c <= '9' || c == '+' || c == '-' || c == '.' || c == 'e' || c == 'E' || c == ' ' || c == '\t' || c == '\n' || c == '\r') {
					return jv.VNull()
				}
			}
			return in.undet("to_number-sloppy-numeric-string")
		}
		return jv.VNull()
	case "to_string":
		if v[0].K == jv.Str {
			return v[0]
		}
		if orderMatters(v[0]) {
			return in.undet("to_string-of-unordered")
		}
		if jv.HasLoose(v[0]) {
			return in.undet("consumes-to_string-text")
		}
		switch v[0].K {
		case jv.Null, jv.Bool:
			return jv.VStr(v[0].JSON())
		}
		return jv.Val{K: jv.Str, S: v[0].JSON(), T: jv.JSONOf}
	case "trim":
		return in.trimFn(v, true, true)
	case "trim_left":
		return in.trimFn(v, true, false)
	case "trim_right":
		return in.trimFn(v, false, true)
	case "type":
		return jv.VStr(v[0].K.String())
	case "zip":
		n := -1
		for _, x := range v {
			if x.K != jv.Arr {
				return in.fail(InvType)
			}
			if n < 0 || len(x.A) < n {
				n = len(x.A)
			}
		}
		for _, x := range v {
			if topOrderMatters(x) {
				return in.undet("zip-of-unordered")
			}
		}
		out := make([]jv.Val, n)
		for i := 0; i < n; i++ {
			row := make([]jv.Val, len(v))
			for j, x := range v {
				row[j] = x.A[i]
			}
			out[i] = jv.VArr(row)
		}
		return jv.VArr(out)
	}
	panic("model: unknown builtin " + name)
}

func sortedKeysA(m map[string][]jv.Val) []string {
	ks := make([]string, 0, len(m))
	for k := range m {
		ks = append(ks, k)
	}
	sort.Strings(ks)
	return ks
}


// caseMappingPinned reports whether upper/lower of s is determined. The
// specification says "the uppercase string" and no more; the reading taken
// here is the default case conversion of the Unicode Standard (section 3.13)
// for characters whose conversion is a plain one-to-one mapping that does not
// depend on context or language, which is what unicode.ToUpper / ToLower
// tabulate. Characters with an entry in SpecialCasing.txt (one-to-many or
// conditional mappings: sharp s, ligatures, Greek with ypogegrammeni, final
// sigma, dotted capital I, ...) are left undetermined, so that an
// implementation of the full mappings is as right as one of the simple ones.
func caseMappingPinned(s string) bool {
	for _, r := range s {
		if r < 0x80 {
			continue
		}
		if r == utf8.RuneError {
			return false
		}
		switch {
		case r == 0x00DF, r == 0x0130, r == 0x0131, r == 0x0149, r == 0x01F0, r == 0x0345, r == 0x0390, r == 0x03A3, r == 0x03B0, r == 0x03C2, r == 0x0587, r == 0x1E9E,
			r >= 0x1E96 && r <= 0x1E9A, r >= 0x1F50 && r <= 0x1F56, r >= 0x1F80 && r <= 0x1FFC, r >= 0xFB00 && r <= 0xFB06, r >= 0xFB13 && r <= 0xFB17,
			r >= 0x01C4 && r <= 0x01CC, r >= 0x01F1 && r <= 0x01F3, r >= 0x10D0 && r <= 0x10FF, r >= 0x1C90 && r <= 0x1CBF:
			// (the last three ranges: title-case digraphs and Georgian, whose
			// upper-case forms were added late and are not in every table)
			return false
		}
	}
	return true
}
