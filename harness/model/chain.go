package model

import (
	"unicode/utf8"

	"verif/harness/ast"
	"verif/harness/jv"
)

func (in *interp) chain(c *ast.Chain, cur jv.Val, sc *scope, pdepth int) jv.Val {
	v := in.head(c.Head, cur, sc, pdepth)
	if in.failed() {
		return jv.VNull()
	}
	if len(c.Steps) == 0 {
		return v
	}
	if c.Head.Kind == ast.HImplicit || c.Head.Kind == ast.HCurrent {
		return in.steps(c.Steps, v, sc, pdepth, false)
	}
	return in.move(func() jv.Val { return in.steps(c.Steps, v, sc, pdepth, false) })
}

func (in *interp) head(h ast.Head, cur jv.Val, sc *scope, pdepth int) jv.Val {
	switch h.Kind {
	case ast.HField:
		return in.field(cur, h.Name)
	case ast.HLiteral:
		return h.Lit
	case ast.HRaw:
		return jv.VStr(h.Raw)
	case ast.HCurrent:
		return cur
	case ast.HRoot:
		return in.root
	case ast.HVar:
		s, ok := lookup(sc, h.Name)
		if !ok {
			return in.fail(UndefVar)
		}
		in.ev.VarReads++
		if s.site != in.ctx {
			in.ev.VarReadMoved++
		}
		return s.val
	case ast.HCall:
		return in.call(h.Name, h.Args, cur, sc, pdepth)
	case ast.HParen:
		return in.eval(h.X, cur, sc, pdepth)
	case ast.HMultiList:
		// a multi-select standing on its own is evaluated even on a null
		// current node (corpus: `null`|[@] -> [null]); only as the right-hand
		// side of a sub-expression does null short-circuit (missing.{a: b}).
		return in.multiList(h.Items, cur, sc, pdepth, false)
	case ast.HMultiHash:
		return in.multiHash(h.Keys, h.Items, cur, sc, pdepth, false)
	case ast.HImplicit:
		return cur
	}
	panic("model: bad head")
}

func (in *interp) field(v jv.Val, name string) jv.Val {
	if v.K != jv.Obj {
		if v.K != jv.Null {
			in.ev.TypeNull++
		}
		return jv.VNull()
	}
	if m, ok := v.Get(name); ok {
		return m
	}
	return jv.VNull()
}

func (in *interp) multiList(items []ast.Expr, cur jv.Val, sc *scope, pdepth int, nullShort bool) jv.Val {
	if nullShort && cur.K == jv.Null {
		return jv.VNull()
	}
	out := make([]jv.Val, len(items))
	for i, x := range items {
		out[i] = in.eval(x, cur, sc, pdepth)
	}
	if in.failed() {
		return jv.VNull()
	}
	return jv.VArr(out)
}

func (in *interp) multiHash(keys []string, items []ast.Expr, cur jv.Val, sc *scope, pdepth int, nullShort bool) jv.Val {
	if nullShort && cur.K == jv.Null {
		return jv.VNull()
	}
	seen := map[string]bool{}
	ms := make([]jv.Member, len(items))
	for i, x := range items {
		if seen[keys[i]] {
			in.undet("multihash-duplicate-key")
		}
		seen[keys[i]] = true
		ms[i] = jv.Member{K: keys[i], V: in.eval(x, cur, sc, pdepth)}
	}
	if in.failed() {
		return jv.VNull()
	}
	return jv.VObj(ms)
}

// steps applies the postfix steps to v. directFilterRHS is true when these
// steps are (directly) the right-hand side of a filter projection.
func (in *interp) steps(steps []ast.Step, v jv.Val, sc *scope, pdepth int, directFilterRHS bool) jv.Val {
	for i := 0; i < len(steps); i++ {
		if in.failed() {
			return jv.VNull()
		}
		s := steps[i]
		in.ev.Steps++
		switch s.Kind {
		case ast.SField:
			v = in.field(v, s.Name)
			continue
		case ast.SCall:
			if v.K == jv.Null {
				// does a sub-expression short-circuit on a null left side or is
				// the function called with a null current node? not pinned.
				return in.undet("call-step-on-null")
			}
			cur := v
			v = in.call(s.Name, s.Args, cur, sc, pdepth)
			continue
		case ast.SMultiList:
			v = in.multiList(s.Items, v, sc, pdepth, true)
			continue
		case ast.SMultiHash:
			v = in.multiHash(s.Keys, s.Items, v, sc, pdepth, true)
			continue
		case ast.SIndex:
			v = in.index(v, s.Index)
			continue
		case ast.SSlice:
			if v.K == jv.Str {
				in.ev.SliceOnString++
				v = in.sliceString(v, s)
				continue
			}
		case ast.SFilter:
			if directFilterRHS {
				// a filter step directly inside the right-hand side of a filter
				// projection: reference implementations disagree.
				return in.undet("filter-in-filter-rhs")
			}
		}
		// projection-creating step
		rest := steps[i+1:]
		rhs, tail := rest, []ast.Step(nil)
		for j, r := range rest {
			if r.Kind == ast.SFlatten {
				rhs, tail = rest[:j], rest[j:]
				break
			}
		}
		base, ok := in.source(s, v, sc, pdepth)
		if in.failed() && !(s.Kind == ast.SFilter && ok) {
			return jv.VNull()
		}
		if !ok {
			v = jv.VNull()
		} else {
			in.ev.Projections++
			if pdepth+1 > in.ev.MaxProjDepth {
				in.ev.MaxProjDepth = pdepth + 1
			}
			out := make([]jv.Val, 0, len(base.A))
			for _, x := range base.A {
				x := x
				r := in.iso(func() jv.Val {
					return in.move(func() jv.Val { return in.steps(rhs, x, sc, pdepth+1, s.Kind == ast.SFilter) })
				})
				if in.failed() {
					continue // keep collecting the faults of the other elements
				}
				if r.K == jv.Null {
					in.ev.NullDropped++
					continue
				}
				out = append(out, r)
			}
			if in.failed() {
				return jv.VNull()
			}
			v = jv.Val{K: jv.Arr, A: out, Unordered: base.Unordered}
		}
		// continue with the tail (starts with a flatten, or is empty)
		steps = tail
		i = -1
	}
	return v
}

// source computes the array a projection-creating step iterates over.
func (in *interp) source(s ast.Step, v jv.Val, sc *scope, pdepth int) (jv.Val, bool) {
	switch s.Kind {
	case ast.SStar:
		if v.K != jv.Obj {
			if v.K != jv.Null {
				in.ev.TypeNull++
			}
			return jv.Val{}, false
		}
		vals := make([]jv.Val, len(v.O))
		for i, m := range v.O {
			vals[i] = m.V
		}
		in.ev.UnorderedMade++
		return jv.VUArr(vals), true
	case ast.SListStar:
		if v.K != jv.Arr {
			if v.K != jv.Null {
				in.ev.TypeNull++
			}
			return jv.Val{}, false
		}
		return v, true
	case ast.SFlatten:
		if v.K != jv.Arr {
			if v.K != jv.Null {
				in.ev.TypeNull++
			}
			return jv.Val{}, false
		}
		in.ev.Flattened++
		out := make([]jv.Val, 0, len(v.A))
		un := v.Unordered
		for _, e := range v.A {
			if e.K == jv.Arr {
				if topOrderMatters(e) {
					un = true
				}
				out = append(out, e.A...)
			} else {
				out = append(out, e)
			}
		}
		return jv.Val{K: jv.Arr, A: out, Unordered: un}, true
	case ast.SFilter:
		if v.K != jv.Arr {
			if v.K != jv.Null {
				in.ev.TypeNull++
			}
			return jv.Val{}, false
		}
		in.ev.Filtered++
		out := make([]jv.Val, 0, len(v.A))
		// Every condition is evaluated in isolation: an implementation may
		// apply the right-hand side to an element as soon as its condition
		// holds, before it has looked at the conditions of later elements, so
		// a fault in a later condition and a fault in the right-hand side of
		// an earlier element can both be the one reported. The elements whose
		// condition holds are returned even when another condition failed;
		// the caller goes on to collect the faults of the right-hand side.
		for _, e := range v.A {
			e := e
			sel := false
			in.iso(func() jv.Val {
				c := in.move(func() jv.Val { return in.eval(s.Cond, e, sc, pdepth+1) })
				if !in.failed() && c.Truthy() {
					sel = true
				}
				return c
			})
			if sel {
				out = append(out, e)
			}
		}
		return jv.Val{K: jv.Arr, A: out, Unordered: v.Unordered}, true
	case ast.SSlice:
		if v.K != jv.Arr {
			if v.K != jv.Null {
				in.ev.TypeNull++
			}
			return jv.Val{}, false
		}
		in.ev.SliceOnArray++
		if s.Stride != nil && *s.Stride == 0 {
			in.fail(InvValue)
			return jv.Val{}, false
		}
		if topOrderMatters(v) {
			in.undet("slice-of-unordered")
			return jv.Val{}, false
		}
		idx := SliceIndices(len(v.A), s.Start, s.Stop, s.Stride)
		out := make([]jv.Val, len(idx))
		for i, j := range idx {
			out[i] = v.A[j]
		}
		return jv.VArr(out), true
	}
	panic("model: not a projection step")
}

func (in *interp) index(v jv.Val, i int64) jv.Val {
	if v.K != jv.Arr {
		if v.K != jv.Null {
			in.ev.TypeNull++
		}
		return jv.VNull()
	}
	if topOrderMatters(v) {
		return in.undet("index-of-unordered")
	}
	n := int64(len(v.A))
	if i < 0 {
		i += n
	}
	if i < 0 || i >= n {
		return jv.VNull()
	}
	return v.A[i]
}

func (in *interp) sliceString(v jv.Val, s ast.Step) jv.Val {
	if s.Stride != nil && *s.Stride == 0 {
		return in.fail(InvValue)
	}
	if v.T == jv.JSONOf {
		return in.undet("consumes-to_string-text")
	}
	if !utf8.ValidString(v.S) {
		return in.undet("slice-of-invalid-utf8")
	}
	rs := []rune(v.S)
	idx := SliceIndices(len(rs), s.Start, s.Stop, s.Stride)
	out := make([]rune, len(idx))
	for i, j := range idx {
		out[i] = rs[j]
	}
	return jv.VStr(string(out))
}

// SliceIndices is the specification's slice algorithm (the same indices
// Python's slice.indices + range visit). step must be non-zero (nil = 1).
func SliceIndices(n int, start, stop, step *int64) []int {
	st := int64(1)
	if step != nil {
		st = *step
	}
	if st == 0 {
		panic("SliceIndices: step 0")
	}
	N := int64(n)
	var lo, hi int64
	if st > 0 {
		lo, hi = 0, N
		if start != nil {
			lo = clampIdx(*start, N, 0, N)
		}
		if stop != nil {
			hi = clampIdx(*stop, N, 0, N)
		}
	} else {
		lo, hi = N-1, -1
		if start != nil {
			lo = clampIdx(*start, N, -1, N-1)
		}
		if stop != nil {
			hi = clampIdx(*stop, N, -1, N-1)
		}
	}
	var out []int
	if st > 0 {
		for i := lo; i < hi; {
			out = append(out, int(i))
			if st > N { // avoid overflow; next index is beyond hi anyway
				break
			}
			i += st
		}
	} else {
		for i := lo; i > hi; {
			out = append(out, int(i))
			if st < -N-1 {
				break
			}
			i += st
		}
	}
	return out
}

// clampIdx resolves a possibly negative index and clamps it into [min,max].
func clampIdx(i, n, min, max int64) int64 {
	if i < 0 {
		if i < -n-1 { // avoid overflow of i+n for extreme values
			return min
		}
		i += n
		if i < min {
			return min
		}
		return i
	}
	if i > max {
		return max
	}
	return i
}
