package model

import (
	"verif/harness/ast"
)

// Sig describes a built-in's signature.
type Sig struct {
	Min, Max int   // Max < 0: variadic
	Refs     []int // argument positions that must be expression references
}

var Sigs = map[string]Sig{
	"abs": {1, 1, nil}, "avg": {1, 1, nil}, "ceil": {1, 1, nil}, "contains": {2, 2, nil},
	"ends_with": {2, 2, nil}, "find_first": {2, 4, nil}, "find_last": {2, 4, nil}, "floor": {1, 1, nil},
	"from_items": {1, 1, nil}, "group_by": {2, 2, []int{1}}, "items": {1, 1, nil}, "join": {2, 2, nil},
	"keys": {1, 1, nil}, "length": {1, 1, nil}, "lower": {1, 1, nil}, "map": {2, 2, []int{0}},
	"max": {1, 1, nil}, "max_by": {2, 2, []int{1}}, "merge": {1, -1, nil}, "min": {1, 1, nil},
	"min_by": {2, 2, []int{1}}, "not_null": {1, -1, nil}, "pad_left": {2, 3, nil}, "pad_right": {2, 3, nil},
	"replace": {3, 4, nil}, "reverse": {1, 1, nil}, "sort": {1, 1, nil}, "sort_by": {2, 2, []int{1}},
	"split": {2, 3, nil}, "starts_with": {2, 2, nil}, "sum": {1, 1, nil}, "to_array": {1, 1, nil},
	"to_number": {1, 1, nil}, "to_string": {1, 1, nil}, "trim": {1, 2, nil}, "trim_left": {1, 2, nil},
	"trim_right": {1, 2, nil}, "type": {1, 1, nil}, "upper": {1, 1, nil}, "values": {1, 1, nil},
	"zip": {1, -1, nil},
}

// FuncNames lists the built-ins in sorted order.
var FuncNames = func() []string {
	m := map[string]Sig{}
	for k, v := range Sigs {
		m[k] = v
	}
	out := make([]string, 0, len(m))
	for k := range m {
		out = append(out, k)
	}
	// insertion sort (avoid importing sort twice)
	for i := 1; i < len(out); i++ {
		for j := i; j > 0 && out[j] < out[j-1]; j-- {
			out[j], out[j-1] = out[j-1], out[j]
		}
	}
	return out
}()

func (s Sig) IsRef(pos int) bool {
	for _, r := range s.Refs {
		if r == pos {
			return true
		}
	}
	return false
}

// StaticRes is the outcome of the text-only checks.
type StaticRes struct {
	Err      Cat
	Undet    string
	ZeroStep bool // a slice with step 0 occurs somewhere
	// RefAtValue: an expression reference stands at a value position
	// (specification: invalid-type).
	RefAtValue bool
}

// Static performs the checks the specification decides from the expression
// alone: unknown function, arity, expression-reference positions.
func Static(e ast.Expr) StaticRes {
	var r StaticRes
	ast.Walk(e, func(x ast.Expr) {
		c, ok := x.(*ast.Chain)
		if !ok {
			return
		}
		if c.Head.Kind == ast.HCall {
			staticCall(c.Head.Name, c.Head.Args, &r)
		}
		for _, s := range c.Steps {
			if s.Kind == ast.SCall {
				staticCall(s.Name, s.Args, &r)
			}
			if s.Kind == ast.SSlice && s.Stride != nil && *s.Stride == 0 {
				r.ZeroStep = true
			}
		}
	})
	return r
}

func staticCall(name string, args []ast.Arg, r *StaticRes) {
	sig, ok := Sigs[name]
	if !ok {
		r.Err |= UnknownFn
		return
	}
	n := len(args)
	if n == 0 && sig.Max < 0 && (name == "merge" || name == "zip") {
		if r.Undet == "" {
			r.Undet = "variadic-zero-args"
		}
		return
	}
	if n < sig.Min || (sig.Max >= 0 && n > sig.Max) {
		r.Err |= Arity
		// argument kinds at the positions that do exist may be wrong as well
	}
	for i, a := range args {
		if i >= sig.Min && sig.Max >= 0 && i >= sig.Max {
			break
		}
		if sig.IsRef(i) && !a.Ref {
			r.Err |= InvType
		}
		if !sig.IsRef(i) && a.Ref {
			r.Err |= InvType
			r.RefAtValue = true
		}
	}
}
