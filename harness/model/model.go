// Package model is the reference interpreter: a slow, direct evaluator of the
// harness AST over jv values, written from the JMESPath Community
// specification. It never imports the library under test.
//
// Every evaluation yields a value, an error-category set, or "undetermined"
// (the specification, the property statements and the compliance corpus do not
// pin the outcome; such cases are skipped and counted by the callers).
package model

import (
	"math/big"
	"sort"

	"verif/harness/ast"
	"verif/harness/jv"
)

// Cat is a bit set of public error categories.
type Cat uint16

const (
	Syntax Cat = 1 << iota
	Arity
	UnknownFn
	InvType
	InvValue
	UndefVar
	NaN
	EvalFailed
)

var catNames = []struct {
	c Cat
	n string
}{
	{Syntax, "syntax"}, {Arity, "invalid-arity"}, {UnknownFn, "unknown-function"},
	{InvType, "invalid-type"}, {InvValue, "invalid-value"}, {UndefVar, "undefined-variable"},
	{NaN, "not-a-number"}, {EvalFailed, "evaluation-failed"},
}

func (c Cat) Names() []string {
	var out []string
	for _, x := range catNames {
		if c&x.c != 0 {
			out = append(out, x.n)
		}
	}
	return out
}

func CatFromNames(ns []string) Cat {
	var c Cat
	for _, n := range ns {
		for _, x := range catNames {
			if x.n == n {
				c |= x.c
			}
		}
	}
	return c
}

func (c Cat) Count() int {
	n := 0
	for _, x := range catNames {
		if c&x.c != 0 {
			n++
		}
	}
	return n
}

// Res is the outcome the model assigns.
type Res struct {
	V     jv.Val
	Err   Cat    // non-zero: the call must fail with a category in this set
	Undet string // non-empty: undetermined, with the reason
}

func (r Res) IsValue() bool { return r.Err == 0 && r.Undet == "" }

// Events counts what happened during an evaluation; used for the
// non-triviality rules and label histograms.
type Events struct {
	NullDropped   int // nulls removed by a projection
	TypeNull      int // selector applied to the wrong type -> null
	Projections   int
	MaxProjDepth  int
	FuncCalls     int
	ExprRefCalls  int // applications of an expression reference to an element
	VarReads      int
	VarReadMoved  int // variable read at a current node different from its binding site
	Shadowed      int
	UnorderedMade int
	Steps         int
	Flattened     int
	Filtered      int
	SliceOnString int
	SliceOnArray  int
}

type scope struct {
	parent *scope
	name   string
	val    jv.Val
	site   int // id of the current node at the binding site
}

type fault struct {
	err   Cat
	undet string
}

type interp struct {
	root jv.Val
	ev   *Events
	f    fault
	// budget guards against blow-up (huge pads etc.)
	budget int
	nodeID int
	ctx    int
}

func (in *interp) fail(c Cat) jv.Val {
	in.f.err |= c
	return jv.VNull()
}

func (in *interp) undet(reason string) jv.Val {
	if in.f.undet == "" {
		in.f.undet = reason
	}
	return jv.VNull()
}

func (in *interp) failed() bool { return in.f.err != 0 || in.f.undet != "" }

// Limits for the model: results larger than this are "undetermined" (too big
// to be interesting and potentially expensive).
const maxResultSize = 200000

// Eval evaluates e on doc.
func Eval(e ast.Expr, doc jv.Val) (Res, Events) {
	var ev Events
	in := &interp{root: doc, ev: &ev, budget: maxResultSize}
	// static faults are decided by the expression text alone
	st := Static(e)
	if st.Undet != "" {
		return Res{Undet: st.Undet}, ev
	}
	if st.Err != 0 {
		if st.ZeroStep {
			st.Err |= InvValue
		}
		return Res{Err: st.Err}, ev
	}
	v := in.eval(e, doc, nil, 0)
	if in.f.undet != "" {
		return Res{Undet: in.f.undet}, ev
	}
	if in.f.err != 0 {
		if st.ZeroStep {
			// an implementation may reject [::0] when compiling, before any
			// run-time fault can happen
			in.f.err |= InvValue
		}
		return Res{Err: in.f.err}, ev
	}
	if st.ZeroStep {
		// a [::0] that evaluation never reached: implementations differ on
		// whether this is a compile-time or a run-time fault.
		return Res{Undet: "slice-step-0-unreached"}, ev
	}
	return Res{V: v}, ev
}

// EvalAt evaluates e with the given current node and root (no static checks,
// no variables); used by generators to direct the choice of sub-expressions.
func EvalAt(e ast.Expr, cur, root jv.Val) Res {
	var ev Events
	in := &interp{root: root, ev: &ev, budget: maxResultSize}
	if st := Static(e); st.Err != 0 || st.Undet != "" {
		return Res{Err: st.Err, Undet: st.Undet}
	}
	v := in.eval(e, cur, nil, 0)
	if in.f.undet != "" {
		return Res{Undet: in.f.undet}
	}
	if in.f.err != 0 {
		return Res{Err: in.f.err}
	}
	return Res{V: v}
}

// iso runs f with a clean fault state and merges what f recorded into the
// enclosing state afterwards. Inside f, failed() therefore means "something in
// this subtree failed"; independent siblings (operands, arguments,
// multi-select fields, projected elements) are all evaluated, so that the set
// of categories of every fault that could be reported first is collected --
// the library may evaluate siblings in any order (multi-select hashes and let
// bindings are Go maps).
func (in *interp) iso(f func() jv.Val) jv.Val {
	saved := in.f
	in.f = fault{}
	v := f()
	mine := in.f
	in.f = saved
	in.f.err |= mine.err
	if in.f.undet == "" {
		in.f.undet = mine.undet
	}
	if mine.err != 0 || mine.undet != "" {
		return jv.VNull()
	}
	return v
}

func (in *interp) eval(e ast.Expr, cur jv.Val, sc *scope, pdepth int) jv.Val {
	return in.iso(func() jv.Val { return in.eval1(e, cur, sc, pdepth) })
}

func (in *interp) eval1(e ast.Expr, cur jv.Val, sc *scope, pdepth int) jv.Val {
	switch e := e.(type) {
	case *ast.Binary:
		return in.binary(e, cur, sc, pdepth)
	case *ast.Unary:
		x := in.eval(e.X, cur, sc, pdepth)
		if in.failed() {
			return jv.VNull()
		}
		switch e.Op {
		case "!":
			return jv.VBool(!x.Truthy())
		case "-":
			if x.K != jv.Num {
				return in.undet("unary-sign-non-number")
			}
			if !numOK(x.R) {
				return in.undet("number-out-of-decimal128")
			}
			return jv.VRat(new(big.Rat).Neg(x.R))
		case "+":
			if x.K != jv.Num {
				return in.undet("unary-sign-non-number")
			}
			if !numOK(x.R) {
				return in.undet("number-out-of-decimal128")
			}
			return x
		}
		panic("model: bad unary " + e.Op)
	case *ast.Let:
		// bindings are evaluated in the outer scope, at the let's current node
		vals := make([]jv.Val, len(e.Vals))
		for i, x := range e.Vals {
			vals[i] = in.eval(x, cur, sc, pdepth)
		}
		if in.failed() {
			return jv.VNull()
		}
		site := in.ctx
		seen := map[string]bool{}
		ns := sc
		for i, n := range e.Names {
			if seen[n] {
				// duplicate name in one let: which wins is not pinned
				return in.undet("let-duplicate-name")
			}
			seen[n] = true
			if _, ok := lookup(sc, n); ok {
				in.ev.Shadowed++
			}
			ns = &scope{parent: ns, name: n, val: vals[i], site: site}
		}
		return in.eval(e.Body, cur, ns, pdepth)
	case *ast.Chain:
		return in.chain(e, cur, sc, pdepth)
	}
	panic("model: unknown expr")
}

// move marks that the current node changes for the duration of f (so that
// variable reads can tell whether the current node moved since binding).
func (in *interp) move(f func() jv.Val) jv.Val {
	old := in.ctx
	in.nodeID++
	in.ctx = in.nodeID
	v := f()
	in.ctx = old
	return v
}

func lookup(sc *scope, name string) (*scope, bool) {
	for s := sc; s != nil; s = s.parent {
		if s.name == name {
			return s, true
		}
	}
	return nil, false
}

func (in *interp) binary(e *ast.Binary, cur jv.Val, sc *scope, pdepth int) jv.Val {
	switch e.Op {
	case "|":
		l := in.eval(e.L, cur, sc, pdepth)
		if in.failed() {
			return jv.VNull()
		}
		return in.move(func() jv.Val { return in.eval(e.R, l, sc, pdepth) })
	case "||":
		l := in.eval(e.L, cur, sc, pdepth)
		if in.failed() {
			return jv.VNull()
		}
		if l.Truthy() {
			return l
		}
		return in.eval(e.R, cur, sc, pdepth)
	case "&&":
		l := in.eval(e.L, cur, sc, pdepth)
		if in.failed() {
			return jv.VNull()
		}
		if !l.Truthy() {
			return l
		}
		return in.eval(e.R, cur, sc, pdepth)
	}
	l := in.eval(e.L, cur, sc, pdepth)
	r := in.eval(e.R, cur, sc, pdepth)
	if in.failed() {
		return jv.VNull()
	}
	switch e.Op {
	case "==", "!=":
		eq, ok := in.equal(l, r)
		if !ok {
			return jv.VNull()
		}
		if e.Op == "!=" {
			eq = !eq
		}
		return jv.VBool(eq)
	case "<", "<=", ">", ">=":
		if l.K == jv.Str || r.K == jv.Str {
			return in.undet("ordering-on-string")
		}
		if l.K != jv.Num || r.K != jv.Num {
			return jv.VNull()
		}
		if !numOK(l.R) || !numOK(r.R) {
			return in.undet("number-out-of-decimal128")
		}
		c := l.R.Cmp(r.R)
		switch e.Op {
		case "<":
			return jv.VBool(c < 0)
		case "<=":
			return jv.VBool(c <= 0)
		case ">":
			return jv.VBool(c > 0)
		default:
			return jv.VBool(c >= 0)
		}
	case "+", "-", "*", "/", "//", "%":
		if l.K != jv.Num || r.K != jv.Num {
			return in.undet("arithmetic-on-non-number")
		}
		return in.arith(e.Op, l.R, r.R)
	}
	panic("model: bad binary " + e.Op)
}

// numOK: the number is exactly representable as a decimal128 (<= 34
// significant digits, exponent in range).
func numOK(r *big.Rat) bool {
	d, ok := jv.SigDigits(r)
	if !ok || d > 34 {
		return false
	}
	if r.Sign() == 0 {
		return true
	}
	// magnitude within 1e-6000 .. 1e6000 (conservative)
	abs := new(big.Rat).Abs(r)
	nl := len(abs.Num().String())
	dl := len(abs.Denom().String())
	mag := nl - dl
	return mag > -6000 && mag < 6000
}

// NumOK is exported for the property code.
func NumOK(r *big.Rat) bool { return numOK(r) }

func (in *interp) arith(op string, x, y *big.Rat) jv.Val {
	if !numOK(x) || !numOK(y) {
		return in.undet("number-out-of-decimal128")
	}
	var z *big.Rat
	switch op {
	case "+":
		z = new(big.Rat).Add(x, y)
	case "-":
		z = new(big.Rat).Sub(x, y)
	case "*":
		z = new(big.Rat).Mul(x, y)
	case "/":
		if y.Sign() == 0 {
			return in.fail(NaN)
		}
		z = new(big.Rat).Quo(x, y)
	case "//", "%":
		if y.Sign() == 0 {
			return in.fail(NaN)
		}
		if x.Sign() != 0 && x.Sign() != y.Sign() {
			return in.undet("intdiv-mixed-sign")
		}
		q := new(big.Rat).Quo(x, y)
		qi := new(big.Int).Quo(q.Num(), q.Denom()) // truncation; signs equal so q >= 0
		if op == "//" {
			z = new(big.Rat).SetInt(qi)
		} else {
			z = new(big.Rat).Sub(x, new(big.Rat).Mul(y, new(big.Rat).SetInt(qi)))
		}
	}
	if !numOK(z) {
		return in.undet("inexact-arithmetic")
	}
	return jv.VRat(z)
}

// equal is deep, type-strict equality. ok=false when undetermined.
func (in *interp) equal(a, b jv.Val) (bool, bool) {
	if orderMatters(a) || orderMatters(b) {
		in.undet("equality-on-unordered")
		return false, false
	}
	if jv.HasLoose(a) || jv.HasLoose(b) {
		in.undet("consumes-to_string-text")
		return false, false
	}
	if !numsOK(a) || !numsOK(b) {
		in.undet("number-out-of-decimal128")
		return false, false
	}
	return jv.Equal(a, b), true
}

func numsOK(v jv.Val) bool {
	switch v.K {
	case jv.Num:
		return numOK(v.R)
	case jv.Arr:
		for _, e := range v.A {
			if !numsOK(e) {
				return false
			}
		}
	case jv.Obj:
		for _, m := range v.O {
			if !numsOK(m.V) {
				return false
			}
		}
	}
	return true
}

// orderMatters: v contains (anywhere) an unordered array with >= 2 distinct elements.
func orderMatters(v jv.Val) bool { return jv.HasUnordered(v) }

// topOrderMatters: v itself is an unordered array with >= 2 distinct elements.
func topOrderMatters(v jv.Val) bool {
	if v.K != jv.Arr || !v.Unordered || len(v.A) < 2 {
		return false
	}
	first := jv.Canon(v.A[0], true)
	for _, e := range v.A[1:] {
		if jv.Canon(e, true) != first {
			return true
		}
	}
	return false
}

func sortedKeys(m map[string]jv.Val) []string {
	ks := make([]string, 0, len(m))
	for k := range m {
		ks = append(ks, k)
	}
	sort.Strings(ks)
	return ks
}
