package props

import (
	"fmt"
	"testing"

	"pgregory.net/rapid"

	"verif/harness/ast"
	"verif/harness/gen"
	"verif/harness/jv"
	"verif/harness/model"
	"verif/harness/run"
)

func lit(s string) *ast.Chain {
	v, err := jv.ParseJSON(s)
	if err != nil {
		panic(err)
	}
	return ast.Lit(v)
}

// faultAtom draws a small expression with exactly one fault of a known class
// (or none).
func faultAtom(t *rapid.T) (ast.Expr, string) {
	a := ast.F("a")
	one := lit("1")
	type atom struct {
		class string
		e     ast.Expr
	}
	atoms := []atom{
		{"none", ast.Call("length", ast.A(a))},
		{"none", ast.F("b")},
		{"none", one},
		{"arity", ast.Call("abs")},
		{"arity", ast.Call("abs", ast.A(one), ast.A(one))},
		{"arity", ast.Call("sort_by", ast.A(a))},
		{"arity", ast.Call("join", ast.A(ast.RawS(",")))},
		{"arity", ast.Call("not_null")},
		{"arity", ast.Call("find_first", ast.A(ast.RawS("a")), ast.A(ast.RawS("a")), ast.A(one), ast.A(one), ast.A(one))},
		{"unknown", ast.Call("nosuch", ast.A(a))},
		{"unknown", ast.Call("Length", ast.A(a))},
		{"unknown", ast.Call("nosuch")},
		{"expref", ast.Call("sort_by", ast.A(a), ast.A(ast.F("k")))},
		{"expref", ast.Call("map", ast.A(ast.F("k")), ast.A(a))},
		{"expref", ast.Call("group_by", ast.A(a), ast.A(ast.RawS("k")))},
		{"type", ast.Call("abs", ast.A(ast.RawS("x")))},
		{"type", ast.Call("length", ast.A(one))},
		{"type", ast.Call("join", ast.A(one), ast.A(a))},
		{"type", ast.Call("keys", ast.A(lit("[]")))},
		{"type", ast.Call("sort", ast.A(lit(`[1,"a"]`)))},
		{"type", ast.Call("sort_by", ast.A(lit(`[{"k":1},{"k":"a"}]`)), ast.Ref(ast.F("k")))},
		{"type", ast.Call("starts_with", ast.A(ast.RawS("a")), ast.A(one))},
		{"type", ast.Call("max", ast.A(lit(`[true]`)))},
		{"value", ast.Call("pad_left", ast.A(ast.RawS("a")), ast.A(lit("-1")))},
		{"value", ast.Call("pad_right", ast.A(ast.RawS("a")), ast.A(one), ast.A(ast.RawS("xx")))},
		{"value", ast.Call("from_items", ast.A(lit(`[[1,2]]`)))},
		{"value", ast.Call("from_items", ast.A(lit(`[["a"]]`)))},
		{"value", ast.Call("split", ast.A(ast.RawS("a")), ast.A(ast.RawS("b")), ast.A(lit("-1")))},
		{"value", ast.Call("replace", ast.A(ast.RawS("a")), ast.A(ast.RawS("b")), ast.A(ast.RawS("c")), ast.A(lit("1.5")))},
		{"value", ast.Call("find_first", ast.A(ast.RawS("a")), ast.A(ast.RawS("b")), ast.A(lit("0.5")))},
		{"value", lit(`[1,2,3]`).With(ast.Step{Kind: ast.SSlice, Stride: ast.I64(0)})},
		{"variable", ast.Var("nope")},
		{"variable", ast.Var("nope").With(ast.Step{Kind: ast.SField, Name: "x"})},
		// a variable read where its binding is no longer (or not yet) in scope,
		// inside another let that is
		{"variable", mustParse("let $p = b in [let $q = b in $q, $q]")},
		{"variable", mustParse("let $p = b in [(let $q = a in $q), $p] | [$q]")},
		{"variable", mustParse("let $p = b, $q = $p in $q")},
		{"variable", mustParse("let $p = (let $q = b in $q) in [$p, $q]")},
		{"variable", mustParse("let $p = b in [$q, let $q = b in $q]")},
		{"variable", mustParse("let $p = b in a[*].[let $q = @ in $q][] | [$q]")},
		{"variable", mustParse("let $p = b in map(&(let $q = @ in $q), a) && $q")},
		{"nan", ast.Bin("/", one, lit("0"))},
		{"nan", ast.Bin("//", one, lit("0"))},
		{"nan", ast.Bin("%", lit("0"), lit("0"))},
		{"nan", ast.Bin("*", lit("1e6000"), lit("1e6000"))},
		{"nan", ast.Bin("/", lit("1e6000"), lit("1e-6000"))},
	}
	if rapid.IntRange(0, 5).Draw(t, "anyfn") == 0 {
		// a wrong argument count for any built-in (arguments of plausible kinds)
		name := gen.Pick(t, "fn", model.FuncNames)
		sig := model.Sigs[name]
		n := sig.Min - 1
		if sig.Max >= 0 && rapid.Bool().Draw(t, "over") {
			n = sig.Max + 1 + rapid.IntRange(0, 1).Draw(t, "extra")
		}
		if n >= 0 && !(n == 0 && (name == "merge" || name == "zip")) {
			args := make([]ast.Arg, n)
			for i := range args {
				if sig.IsRef(i) {
					args[i] = ast.Ref(ast.F("k"))
				} else {
					args[i] = ast.A(gen.Pick(t, "argv", []ast.Expr{a, ast.Cur(), ast.RawS("x"), one}))
				}
			}
			return ast.Call(name, args...), "arity"
		}
	}
	at := atoms[rapid.IntRange(0, len(atoms)-1).Draw(t, "atom")]
	return at.e, at.class
}

// c08SafeArgs: arguments that fit the position, so that a fault atom put in
// one position of a call is the only fault of the expression.
var c08SafeArgs = map[string][]string{
	"num": {"`1`", "`-2.5`"}, "arr-num": {"`[1,2]`", "`[]`"}, "arr|str": {"'abcabc'", "`[1,\"b\"]`"}, "sub": {"'b'", "'zz'"}, "str": {"'abcabc'", "''", "'c'"}, "int": {"`0`", "`1`", "`-1`"},
	"arr-pairs": {"`[[\"a\",1]]`"}, "arr-rec": {"`[{\"k\":1},{\"k\":2}]`", "a"}, "obj": {"`{\"a\":1}`", "o"}, "arr-str": {"`[\"a\",\"b\"]`"}, "sized": {"'abc'", "`[1]`", "`{}`"},
	"arr": {"`[1,2]`", "a"}, "arr-homog": {"`[2,1]`", "`[\"b\",\"a\"]`"}, "any": {"`1`", "'x'", "`null`", "b"}, "count": {"`0`", "`1`", "`2`", "`5`"}, "str1": {"'-'", "'é'"}, "numstr": {"'1'", "'x'"}, "padded": {"' abc '"},
}

// faultyArgument puts f at one argument position of a built-in called with
// one of its legal argument counts; every other argument fits its position.
func faultyArgument(t *rapid.T, f ast.Expr) (ast.Expr, string) {
	name := gen.Pick(t, "argfn", model.FuncNames)
	sig := model.Sigs[name]
	kinds := gen.ParamKinds[name]
	max := sig.Max
	if max < 0 {
		max = sig.Min + 2
	}
	argc := rapid.IntRange(sig.Min, max).Draw(t, "argfn-argc")
	var positions []int
	for i := 0; i < argc; i++ {
		if !sig.IsRef(i) {
			positions = append(positions, i)
		}
	}
	if len(positions) == 0 {
		return ast.Call("not_null", ast.A(f)), "argument"
	}
	at := gen.Pick(t, "argfn-pos", positions)
	args := make([]ast.Arg, argc)
	for i := range args {
		kind := "any"
		if i < len(kinds) {
			kind = kinds[i]
		}
		switch {
		case i == at:
			args[i] = ast.A(f)
		case sig.IsRef(i):
			key := ast.Expr(ast.F("k"))
			if name == "map" {
				key = ast.Cur()
			}
			args[i] = ast.Ref(key)
		default:
			pr := ast.Parse(gen.Pick(t, "argfn-safe", c08SafeArgs[kind]))
			if pr.Verdict != ast.In {
				t.Fatalf("HARNESS-BUG: safe argument for %s does not parse", kind)
			}
			args[i] = ast.A(pr.Expr)
		}
	}
	return ast.Call(name, args...), fmt.Sprintf("argument-%d-of-%d", at+1, argc)
}

// inContext places f where it is evaluated below the top level.
func inContext(t *rapid.T, f ast.Expr) (ast.Expr, string) {
	a := ast.F("a")
	ml := func(es ...ast.Expr) *ast.Chain { return &ast.Chain{Head: ast.Head{Kind: ast.HMultiList, Items: es}} }
	switch rapid.IntRange(0, 22).Draw(t, "context") {
	case 20, 21, 22:
		return faultyArgument(t, f)
	case 18, 19:
		// a fault that depends on the data: the key expression (or mapped
		// expression) succeeds for the first record and reaches the faulty
		// atom only for a later one
		key := ast.Bin("||", ast.Bin("&&", ast.F("ok"), ast.F(gen.Pick(t, "okfield", []string{"s", "n"}))), ast.Paren(f))
		fn := gen.Pick(t, "datafn", []string{"sort_by", "min_by", "max_by", "group_by", "map", "filter", "project"})
		switch fn {
		case "map":
			return ast.Call("map", ast.Ref(key), ast.A(ast.F("recs"))), "data-dependent-map"
		case "filter":
			return ast.F("recs").With(ast.Step{Kind: ast.SFilter, Cond: key}), "data-dependent-filter"
		case "project":
			return ast.F("recs").With(ast.Step{Kind: ast.SListStar}, ast.Step{Kind: ast.SMultiList, Items: []ast.Expr{key}}), "data-dependent-projection"
		}
		return ast.Call(fn, ast.A(ast.F("recs")), ast.Ref(key)), "data-dependent-" + fn
	case 14: // selectors continuing a slice of a string ("b" is a string in the first document)
		return ast.F("b").With(ast.Step{Kind: ast.SSlice, Start: ast.I64(0), Stop: ast.I64(1)}, ast.Step{Kind: ast.SMultiList, Items: []ast.Expr{f}}), "after-string-slice"
	case 15:
		return a.With(ast.Step{Kind: ast.SSlice, Start: ast.I64(0), Stop: ast.I64(1)}, ast.Step{Kind: ast.SMultiList, Items: []ast.Expr{f}}), "after-array-slice"
	case 16:
		return a.With(ast.Step{Kind: ast.SIndex, Index: 0}, ast.Step{Kind: ast.SMultiHash, Keys: []string{"k"}, Items: []ast.Expr{f}}), "after-index"
	case 17: // next to a bound variable, inside such a continuation
		sub := gen.Pick(t, "letsubject", []string{"b", "a", "o"})
		st := gen.Pick(t, "letstep", []ast.Step{{Kind: ast.SSlice, Start: ast.I64(0), Stop: ast.I64(1)}, {Kind: ast.SListStar}, {Kind: ast.SStar}, {Kind: ast.SFlatten}, {Kind: ast.SSlice, Stride: ast.I64(-1)}})
		return &ast.Let{Names: []string{"v"}, Vals: []ast.Expr{lit("1")}, Body: ast.F(sub).With(st, ast.Step{Kind: ast.SMultiList, Items: []ast.Expr{ast.Var("v"), f}})}, "let-continuation"
	case 0:
		return f, "top"
	case 1:
		return ml(f), "multiselect-list"
	case 2:
		return &ast.Chain{Head: ast.Head{Kind: ast.HMultiHash, Keys: []string{"k"}, Items: []ast.Expr{f}}}, "multiselect-hash"
	case 3:
		return a.With(ast.Step{Kind: ast.SListStar}, ast.Step{Kind: ast.SMultiList, Items: []ast.Expr{f}}), "projection"
	case 4:
		return a.With(ast.Step{Kind: ast.SFilter, Cond: f}), "filter"
	case 5:
		return ast.Bin("|", a, f), "pipe"
	case 6:
		return ast.Call("map", ast.Ref(f), ast.A(a)), "expref-map"
	case 7:
		fn := gen.Pick(t, "exprefn", []string{"sort_by", "min_by", "max_by", "group_by"})
		return ast.Call(fn, ast.A(a), ast.Ref(f)), "expref-" + fn
	case 8:
		return &ast.Let{Names: []string{"v"}, Vals: []ast.Expr{f}, Body: ast.Var("v")}, "let-binding"
	case 9:
		return &ast.Let{Names: []string{"v"}, Vals: []ast.Expr{lit("1")}, Body: ml(ast.Var("v"), f)}, "let-body"
	case 10:
		return ast.Bin("||", f, lit("1")), "or-left"
	case 11:
		return ast.Bin("&&", lit("true"), f), "and-right"
	case 12:
		return ast.Call("not_null", ast.A(f)), "argument"
	}
	return ast.F("o").With(ast.Step{Kind: ast.SStar}, ast.Step{Kind: ast.SMultiList, Items: []ast.Expr{f}}), "object-projection"
}

var c08Docs = []string{`{"a":[{"k":1},{"k":2}],"b":"x","o":{"p":1,"q":2},"recs":[{"ok":true,"s":"a","n":1},{"ok":false,"s":"b","n":2},{"ok":true,"s":"c","n":3}]}`, `{"a":[],"b":null,"o":{},"recs":[{"ok":true,"s":"a","n":1}]}`, `null`, `{"a":"str","o":[1]}`}

var allCats = []model.Cat{model.Syntax, model.Arity, model.UnknownFn, model.InvType, model.InvValue, model.UndefVar, model.NaN, model.EvalFailed}

// c08Verdict checks the error contract of text on all documents. expected[i]
// is the model's outcome on document i (Undet = not judged).
func c08Verdict(text string, docs []run.Node, expected []model.Res, static model.Cat) string {
	ce, co := run.Compile(text)
	if co.Panic != "" {
		return "Compile panicked: " + co.Panic
	}
	mp, _ := run.MustCompilePanics(text)
	if mp != co.Failed {
		return fmt.Sprintf("MustCompile panics = %v but Compile fails = %v", mp, co.Failed)
	}
	contract := func(o run.Outcome, what string) string {
		if o.Panic != "" {
			return what + " panicked: " + o.Panic
		}
		if !o.Failed {
			return ""
		}
		if o.NonNil {
			return what + " returned a non-nil result together with an error"
		}
		if o.Cats.Count() != 1 {
			return fmt.Sprintf("%s: the error matches %d of the exported categories %v: %s", what, o.Cats.Count(), o.Cats.Names(), o.Msg)
		}
		if o.FmtPanic != "" {
			return what + ": formatting the error panicked: " + o.FmtPanic
		}
		if o.Msg == "" {
			return what + ": empty error message"
		}
		return ""
	}
	if m := contract(co, "Compile"); m != "" {
		return m
	}
	if static != 0 {
		if !co.Failed {
			return fmt.Sprintf("static fault %v not reported by Compile", static.Names())
		}
		if co.Cats&static == 0 {
			return fmt.Sprintf("Compile reports %v for a static fault of category %v", co.Cats.Names(), static.Names())
		}
	} else if co.Failed && co.Cats&(model.Syntax|model.Arity|model.UnknownFn) != 0 {
		return "Compile reports a static fault for an expression without one: " + co.String()
	}
	var firstMsg string
	for i, d := range docs {
		so := run.Search(text, d.Build())
		if m := contract(so, fmt.Sprintf("Search on document %d", i)); m != "" {
			return m
		}
		if co.Failed {
			// static: identical for every document
			if !so.Failed || so.Cats != co.Cats {
				return fmt.Sprintf("Compile fails with %v but Search on document %d gives %s", co.Cats.Names(), i, so)
			}
			if i == 0 {
				firstMsg = so.Msg
			} else if so.Msg != firstMsg {
				return fmt.Sprintf("a static fault is reported differently for different documents: %q vs %q", firstMsg, so.Msg)
			}
			continue
		}
		eo := run.ExprSearch(ce, d.Build())
		if m := contract(eo, fmt.Sprintf("Expression.Search on document %d", i)); m != "" {
			return m
		}
		if eo.Failed && eo.Cats&(model.Syntax|model.Arity|model.UnknownFn) != 0 {
			return fmt.Sprintf("a compiled expression reports a static category on document %d: %s", i, eo)
		}
		if expected[i].Undet == "" {
			// (an undetermined outcome may legitimately vary from call to call)
			if msg := run.SameOutcomeMF(so, eo, true, expected[i].Err.Count() > 1); msg != "" {
				return fmt.Sprintf("Search and Expression.Search disagree on document %d: %s", i, msg)
			}
		}
		if expected[i].Undet == "" {
			if m := run.CheckAgainst(expected[i], so); m != "" {
				return fmt.Sprintf("document %d: %s", i, m)
			}
		}
	}
	return ""
}

// C08: failures follow the documented error contract; static errors ignore the data.
func TestC08_Errors(t *testing.T) {
	c := collector("C08", "errors")
	docs := make([]run.Node, len(c08Docs))
	vals := make([]jv.Val, len(c08Docs))
	for i, s := range c08Docs {
		v, err := jv.ParseJSON(s)
		if err != nil {
			t.Fatal(err)
		}
		vals[i] = v
		docs[i] = run.FromVal(v)
	}
	check(t, func(t *rapid.T) {
		f1, class := faultAtom(t)
		e, ctx := inContext(t, f1)
		label := class + "/" + ctx
		if rapid.IntRange(0, 3).Draw(t, "second") == 0 {
			f2, class2 := faultAtom(t)
			e2, ctx2 := inContext(t, f2)
			e = &ast.Chain{Head: ast.Head{Kind: ast.HMultiList, Items: []ast.Expr{e, e2}}}
			label = class + "+" + class2 + "/" + ctx + "+" + ctx2
			class = "two"
		}
		if rapid.IntRange(0, 5).Draw(t, "wrap") == 0 {
			// an unrelated valid expression around it
			g := &gen.G{T: t, Root: vals[0], Cfg: gen.ExprCfg{MaxDepth: 1, MaxSteps: 2, Compare: true}}
			e = &ast.Chain{Head: ast.Head{Kind: ast.HMultiList, Items: []ast.Expr{g.Expr(vals[0], 0), e}}}
		}
		text := ast.RenderWith(e, gen.Chooser{T: t})
		c.Case()
		st := model.Static(e)
		if st.Undet != "" {
			c.Skip(st.Undet)
			return
		}
		static := st.Err
		if st.ZeroStep {
			// the library rejects [::0] when compiling (permitted)
			static |= model.InvValue
		}
		expected := make([]model.Res, len(vals))
		for i, v := range vals {
			expected[i], _ = model.Eval(e, v)
		}
		call := run.Call{API: "search", Expr: text, Doc: &docs[0]}
		run.Watch(c, "errors", call)
		if msg := c08Verdict(text, docs, expected, static); msg != "" {
			exp := make([]map[string]any, len(expected))
			for i, r := range expected {
				switch {
				case r.Undet != "":
					exp[i] = map[string]any{"undet": r.Undet}
				case r.Err != 0:
					exp[i] = map[string]any{"errors": r.Err.Names()}
				default:
					exp[i] = map[string]any{"value": run.EncVal{V: r.V}}
				}
			}
			c.Fail(t, run.Replay{Check: "errors", Kind: "custom:c08", Calls: []run.Call{call}, Message: msg,
				Extra: mustJSON(map[string]any{"docs": docs, "expected": exp, "static": static.Names()})}, label)
			return
		}
		c.Label(class)
		fails := false
		for _, r := range expected {
			if r.Err != 0 {
				fails = true
			}
		}
		if fails && (ctx != "top" || static != 0) {
			c.NonTrivial(text, func() any {
				outs := make([]string, len(expected))
				for i, r := range expected {
					outs[i] = truncate(describe(r), 80)
				}
				return map[string]any{"expr": text, "fault": label, "static": static.Names(), "expected_per_document": outs}
			})
		}
	})
}

func init() {
	customReplays["custom:c08"] = func(r run.Replay) string {
		var ex struct {
			Docs     []run.Node `json:"docs"`
			Expected []struct {
				Undet  string      `json:"undet"`
				Errors []string    `json:"errors"`
				Value  *run.EncVal `json:"value"`
			} `json:"expected"`
			Static []string `json:"static"`
		}
		if err := jsonUnmarshal(r.Extra, &ex); err != nil || len(r.Calls) == 0 {
			return "malformed replay"
		}
		exp := make([]model.Res, len(ex.Expected))
		for i, e := range ex.Expected {
			switch {
			case e.Undet != "":
				exp[i] = model.Res{Undet: e.Undet}
			case len(e.Errors) > 0:
				exp[i] = model.Res{Err: model.CatFromNames(e.Errors)}
			case e.Value != nil:
				exp[i] = model.Res{V: e.Value.V}
			}
		}
		return c08Verdict(r.Calls[0].Expr, ex.Docs, exp, model.CatFromNames(ex.Static))
	}
	_ = allCats
}

// C08 (non-finite operands): NaN and the infinities are numbers (type() says
// so) that Go data can carry. The package documents ErrNotANumber as "an
// operation produced an infinity or not-a-number result": arithmetic and the
// numeric aggregates over such operands therefore either succeed (1 / +Inf is
// 0) or fail with exactly that category -- never with invalid-type, which would
// say that the operand is not a number.
func TestC08_NonFinite(t *testing.T) {
	c := collector("C08", "non-finite")
	check(t, func(t *rapid.T) {
		x := gen.Pick(t, "nonfinite", []run.Node{{T: "float64", S: "NaN"}, {T: "float64", S: "+Inf"}, {T: "float64", S: "-Inf"}, {T: "float32", S: "NaN"}, {T: "float32", S: "+Inf"}, {T: "float32", S: "-Inf"},
			{T: "decimal", S: "NaN"}, {T: "decimal", S: "Inf"}, {T: "decimal", S: "-Inf"}})
		y := gen.Pick(t, "finite", []run.Node{{T: "json.Number", S: "2"}, {T: "json.Number", S: "0"}, {T: "json.Number", S: "-1.5"}, {T: "int", S: "3"}, {T: "uint8", S: "0"}, {T: "float64", S: "2.5"}, {T: "float64", S: "0"},
			{T: "float32", S: "-1"}, {T: "decimal", S: "7"}, {T: "decimal", S: "0"}, {T: "float64", S: "+Inf"}, {T: "float64", S: "NaN"}})
		op := gen.Pick(t, "op", []string{"+", "-", "*", "/", "//", "%"})
		text := gen.Pick(t, "form", []string{"x " + op + " y", "y " + op + " x", "x " + op + " `2`", "`0` " + op + " x", "x " + op + " x", "(x " + op + " y) " + op + " `1`", "sum([x, y])", "sum([y, x, `1`])", "avg([x])", "avg([y, x])",
			"sum(xs)", "avg(xs)", "[y, x][*] | sum(@)", "map(&(@ " + op + " `1`), xs)", "xs[?(@ " + op + " `1`) > `0`]", "sort_by(recs, &(k " + op + " `1`))", "max_by(recs, &(k " + op + " `0`))", "let $v = x in $v " + op + " y"})
		doc := run.Node{T: "object", K: []string{"x", "y", "xs", "recs"}, A: []run.Node{x, y, {T: "array", A: []run.Node{y, x}},
			{T: "array", A: []run.Node{{T: "object", K: []string{"k"}, A: []run.Node{y}}, {T: "object", K: []string{"k"}, A: []run.Node{x}}}}}}
		c.Case()
		call := run.Call{API: "search", Expr: text, Doc: &doc}
		run.Watch(c, "non-finite", call)
		msg := c08NonFiniteVerdict(text, doc)
		if msg != "" {
			c.Fail(t, run.Replay{Check: "non-finite", Kind: "custom:c08-nonfinite", Calls: []run.Call{call}, Message: msg}, op+x.S)
			return
		}
		c.Label(op)
		c.NonTrivial(text+"\x00"+doc.Text(), func() any { return map[string]any{"expr": text, "data": doc.Text()} })
	})
}

func c08NonFiniteVerdict(text string, doc run.Node) string {
	ce, co := run.Compile(text)
	if co.Panic != "" || co.Failed {
		return "Compile fails on a valid expression: " + co.String()
	}
	for i, o := range []run.Outcome{run.Search(text, doc.Build()), run.ExprSearch(ce, doc.Build())} {
		what := []string{"Search", "Expression.Search"}[i]
		if o.Panic != "" {
			return what + " panicked: " + o.Panic
		}
		if !o.Failed {
			continue
		}
		if o.NonNil {
			return what + " returned a non-nil result together with an error"
		}
		if o.Cats != model.NaN {
			return fmt.Sprintf("%s: arithmetic over a non-finite number failed with %v (%s); the documented category is not-a-number", what, o.Cats.Names(), o.Msg)
		}
	}
	return ""
}

func init() {
	customReplays["custom:c08-nonfinite"] = func(r run.Replay) string {
		if len(r.Calls) == 0 || r.Calls[0].Doc == nil {
			return "malformed replay"
		}
		return c08NonFiniteVerdict(r.Calls[0].Expr, *r.Calls[0].Doc)
	}
}

// C08 (texts outside the grammar): a syntax fault is decided by the text
// alone. A damaged expression that the reference recognizer places outside
// the grammar must make Compile fail, MustCompile panic, and one-shot Search
// fail in the same category on every document -- whatever the documents hold.
func TestC08_SyntaxTexts(t *testing.T) {
	c := collector("C08", "syntax-texts")
	docs := make([]run.Node, 0, len(c08Docs)+2)
	for _, d := range c08Docs {
		docs = append(docs, run.FromVal(jv.MustParseJSON(d)))
	}
	docs = append(docs, run.FromVal(jv.MustParseJSON(`[1,[2],{"a":3}]`)), run.FromVal(jv.MustParseJSON(`"text"`)))
	check(t, func(t *rapid.T) {
		doc := jv.MustParseJSON(c08Docs[0])
		g := &gen.G{T: t, Root: doc, Cfg: fullCfg()}
		valid := ast.RenderWith(g.Expr(doc, 0), gen.Chooser{T: t})
		text, mut := mutate(t, valid)
		c.Case()
		pr := ast.Parse(text)
		if pr.Verdict != ast.Out {
			c.Skip("still-in-the-grammar-or-undetermined")
			return
		}
		if staticPreemptShape(text) && kfOpen("static-error-preempts-syntax-error") {
			c.Exclude("static-error-preempts-syntax-error")
			return
		}
		call := run.Call{API: "search", Expr: text, Doc: &docs[0]}
		run.Watch(c, "syntax-texts", call)
		if msg := c08SyntaxVerdict(text, docs); msg != "" {
			c.Fail(t, run.Replay{Check: "syntax-texts", Kind: "custom:c08-syntax", Calls: []run.Call{call}, Message: fmt.Sprintf("not in the grammar (%s): %s", pr.Reason, msg)}, mut)
			return
		}
		c.Label(mut)
		c.NonTrivial(text, func() any { return map[string]any{"text": text, "damage": mut, "reason": pr.Reason} })
	})
}

func c08SyntaxVerdict(text string, docs []run.Node) string {
	_, co := run.Compile(text)
	if co.Panic != "" {
		return "Compile panicked: " + co.Panic
	}
	if !co.Failed {
		return "Compile accepts it"
	}
	if co.Cats != model.Syntax {
		return "Compile fails with " + fmt.Sprint(co.Cats.Names()) + ", not with a syntax error"
	}
	if mp, _ := run.MustCompilePanics(text); !mp {
		return "MustCompile does not panic although Compile fails"
	}
	for i, d := range docs {
		o := run.Search(text, d.Build())
		if o.Panic != "" {
			return fmt.Sprintf("Search panicked on document %d: %s", i, o.Panic)
		}
		if !o.Failed || o.Cats != model.Syntax {
			return fmt.Sprintf("Search on document %d does not report the syntax error: %s", i, o)
		}
		if o.NonNil {
			return fmt.Sprintf("Search on document %d returned a non-nil result together with the error", i)
		}
	}
	return ""
}

func init() {
	customReplays["custom:c08-syntax"] = func(r run.Replay) string {
		if len(r.Calls) == 0 {
			return "malformed replay"
		}
		docs := make([]run.Node, 0, len(c08Docs))
		for _, d := range c08Docs {
			docs = append(docs, run.FromVal(jv.MustParseJSON(d)))
		}
		return c08SyntaxVerdict(r.Calls[0].Expr, docs)
	}
}

// mustParse reads a fixed palette expression with the reference parser.
func mustParse(text string) ast.Expr {
	pr := ast.Parse(text)
	if pr.Verdict != ast.In {
		panic("HARNESS-BUG: palette expression does not parse: " + text + ": " + pr.Reason)
	}
	return pr.Expr
}
