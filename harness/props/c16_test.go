package props

import (
	"fmt"
	"strconv"
	"strings"
	"testing"
	"unicode/utf8"

	"pgregory.net/rapid"

	"verif/harness/ast"
	"verif/harness/gen"
	"verif/harness/jv"
	"verif/harness/model"
	"verif/harness/run"
)

var c16Runes = []rune{'a', 'b', 'z', '0', ' ', '\'', '"', '\\', '`', '/', '\n', '\t', '\r', '\b', '\f', 0x00, 0x01, 0x1f, 0x7f, 0x80, 'é', 'ß', 0x300, '日', 0xFFFD, 0xFFFF, 0xD7FF, 0xE000, 0x10000, 0x1F600, 0x10FFFF, 'u', 'n', '$', '&', '|', '[', ']', '{', '}', '(', ')', '*', '.', ',', ':', '@', '?', '!', '=', '<', '>', '+', '-', '%'}

// anyString draws a Unicode string rich in characters that need escaping.
func anyString(t *rapid.T) string {
	n := rapid.IntRange(0, 8).Draw(t, "len")
	rs := make([]rune, 0, n)
	for i := 0; i < n; i++ {
		switch rapid.IntRange(0, 9).Draw(t, "rk") {
		case 0:
			// arbitrary scalar value
			r := rune(rapid.IntRange(0, 0x10FFFF).Draw(t, "cp"))
			if r >= 0xD800 && r <= 0xDFFF {
				r = 0xFFFD
			}
			rs = append(rs, r)
		case 1:
			// runs of escapes
			rs = append(rs, '\\', gen.Pick(t, "esc", []rune{'\'', '\\', '"', '`', 'n', 'u', 'a', ' '}))
		default:
			rs = append(rs, gen.Pick(t, "r", c16Runes))
		}
	}
	return string(rs)
}

var longNums = []string{"0", "-0", "1", "1.0", "1e0", "1E+2", "1e-2", "123456789012345678901234567890", "0.1234567890123456789012345678901234", "1234567890123456789012345678901234", "9007199254740993", "-9223372036854775809", "1.7976931348623157e308", "5e-324", "12345678901234567.89012345678901234", "100000000000000000000000000000000000001", "0.30000000000000004", "1e400", "2e-400"}

func anyJSON(t *rapid.T, depth int) jv.Val {
	k := rapid.IntRange(0, 9).Draw(t, "jk")
	if depth >= 3 && k >= 7 {
		k = 2
	}
	switch k {
	case 0:
		return jv.VNull()
	case 1:
		return jv.VBool(rapid.Bool().Draw(t, "b"))
	case 2, 3:
		return jv.VNumText(gen.Pick(t, "num", longNums))
	case 4, 5, 6:
		return jv.VStr(anyString(t))
	case 7, 8:
		n := rapid.IntRange(0, 3).Draw(t, "n")
		a := make([]jv.Val, n)
		for i := range a {
			a[i] = anyJSON(t, depth+1)
		}
		return jv.VArr(a)
	}
	n := rapid.IntRange(0, 3).Draw(t, "n")
	ms := make([]jv.Member, 0, n)
	seen := map[string]bool{}
	for i := 0; i < n; i++ {
		k := anyString(t)
		if seen[k] {
			continue
		}
		seen[k] = true
		ms = append(ms, jv.Member{K: k, V: anyJSON(t, depth+1)})
	}
	return jv.VObj(ms)
}

func needsEscape(s string) bool {
	for _, r := range s {
		if r < 0x20 || r == '\'' || r == '"' || r == '\\' || r == '`' || r >= 0x80 {
			return true
		}
	}
	return false
}

func jsonNonTrivial(v jv.Val) bool {
	switch v.K {
	case jv.Num:
		d, ok := jv.SigDigits(v.R)
		return !ok || d > 17
	case jv.Str:
		return needsEscape(v.S)
	case jv.Arr:
		for _, e := range v.A {
			if jsonNonTrivial(e) {
				return true
			}
		}
	case jv.Obj:
		for _, m := range v.O {
			if needsEscape(m.K) || jsonNonTrivial(m.V) {
				return true
			}
		}
	}
	return false
}

// C16: every string and key can be written literally and decodes to itself.
func TestC16_Literals(t *testing.T) {
	c := collector("C16", "literals")
	check(t, func(t *rapid.T) {
		ch := gen.Chooser{T: t}
		kind := rapid.IntRange(0, 3).Draw(t, "kind")
		c.Case()
		var text, label, keyOf string
		var doc jv.Val = jv.VNull()
		var want jv.Val
		nontrivial := false
		switch kind {
		case 0: // raw string
			s := anyString(t)
			text = ast.RawString(s, ch)
			want = jv.VStr(s)
			label = "raw-string"
			nontrivial = needsEscape(s)
		case 1: // JSON literal holding a string
			s := anyString(t)
			text = ast.JSONLiteral(jv.VStr(s), ch)
			want = jv.VStr(s)
			label = "json-string"
			nontrivial = needsEscape(s)
		case 2: // quoted identifier
			s := anyString(t)
			other := s + "x"
			if rapid.Bool().Draw(t, "present") {
				doc = jv.VObj([]jv.Member{{K: s, V: jv.VInt(1)}, {K: other, V: jv.VInt(2)}})
				want = jv.VInt(1)
			} else {
				doc = jv.VObj([]jv.Member{{K: other, V: jv.VInt(2)}, {K: "x" + s, V: jv.VInt(3)}})
				want = jv.VNull()
			}
			text = ast.QuoteIdent(s, ch)
			keyOf = s
			label = "quoted-identifier"
			nontrivial = needsEscape(s)
		default: // arbitrary JSON value
			v := anyJSON(t, 0)
			text = ast.JSONLiteral(v, ch)
			want = v
			label = "json-value"
			nontrivial = jsonNonTrivial(v)
		}
		// the literal in different syntactic positions (each may be parsed by
		// different code): alone, in a multi-select, as the value or the key of
		// a hash, after a pipe or a dot, in parentheses, as an argument,
		// compared with itself, surrounded by whitespace
		switch place := rapid.IntRange(0, 13).Draw(t, "placement"); {
		case place == 5:
			text, want, label = "["+text+"]", jv.VArr([]jv.Val{want}), label+"/list"
		case place == 6:
			text, label = "{k: "+text+"}.k", label+"/hash-value"
		case place == 7:
			text, label = "@ | "+text, label+"/after-pipe"
		case place == 8:
			text, label = "("+text+")", label+"/paren"
		case place == 9:
			text, label = "not_null("+text+", `0`)", label+"/argument"
			if want.K == jv.Null {
				want = jv.VInt(0)
			}
		case place == 10:
			text, want, label = text+" == "+text, jv.VBool(true), label+"/compared"
		case place == 11:
			text, label = "\r\n\t "+text+" \t\r\n", label+"/whitespace"
		case place == 12 && kind == 2:
			text, label = "@."+text, label+"/after-dot"
		case place == 13 && kind == 2 && keyOf != "other":
			// a quoted identifier as the key of a multi-select hash
			key := text
			text, label = "{"+key+": `7`, other: `8`}", label+"/hash-key"
			want = jv.VObj([]jv.Member{{K: "other", V: jv.VInt(8)}, {K: keyOf, V: jv.VInt(7)}})
			doc = jv.VObj(nil)
		}
		if !utf8.ValidString(text) {
			t.Fatalf("harness: generated invalid UTF-8")
		}
		res := model.Res{V: want}
		node := run.FromVal(doc)
		call := run.Call{API: "search", Expr: text, Doc: &node}
		run.Watch(c, "literals", call)
		out := run.Search(text, node.Build())
		msg := run.CheckAgainst(res, out)
		if msg == "" && out.IsValue() && want.K == jv.Num {
			// numbers keep their full precision
			if out.Val.R.Cmp(want.R) != 0 {
				msg = "number changed value"
			}
		}
		if msg == "" {
			// the compiled form must agree
			ce, co := run.Compile(text)
			if co.Failed || co.Panic != "" {
				msg = "Compile rejects what Search accepted: " + co.String()
			} else if m := run.CheckAgainst(res, run.ExprSearch(ce, node.Build())); m != "" {
				msg = "compiled: " + m
			}
		}
		if msg != "" {
			c.Fail(t, run.Replay{Check: "literals", Kind: "expect", Calls: []run.Call{call, {API: "expr-search", Expr: text, Doc: &node}}, Expect: &run.Expect{Value: &run.EncVal{V: want}}, Message: msg}, label)
			return
		}
		c.Label(label)
		if nontrivial {
			c.NonTrivial(text+"\x00"+doc.JSON(), func() any {
				return map[string]any{"expr": text, "doc": doc.JSON(), "value": want.JSON()}
			})
		}
	})
}

// C16 (long literals): a long run of plain characters followed by an escape,
// in each of the three literal syntaxes. Offsets kept in narrow integer
// fields, fixed buffers and "first escape" short cuts show at lengths around
// 2^8, 2^16 and 2^20.
func TestC16_Long(t *testing.T) {
	c := collector("C16", "long")
	shard, _ := strconv.Atoi(getenv("VERIF_SHARD", "0"))
	nshards, _ := strconv.Atoi(getenv("VERIF_NSHARDS", "1"))
	type esc struct{ text, value string }
	escapes := map[string][]esc{
		"quoted": {{`\"`, `"`}, {`\\`, `\`}, {`\n`, "\n"}, {`é`, "é"}, {`😀`, "😀"}, {`\/`, "/"}, {`é\t`, "é\t"}},
		"json":   {{`\"`, `"`}, {`\\`, `\`}, {`\n`, "\n"}, {`é`, "é"}, {`😀`, "😀"}, {`\/`, "/"}, {"\\`", "`"}},
		"raw":    {{`\'`, `'`}, {`\\`, `\`}, {`\n`, `\n`}, {`é\'`, `é'`}, {`\a\'`, `\a'`}},
	}
	i := 0
	for _, kind := range []string{"quoted", "json", "raw"} {
		for _, n := range []int{254, 255, 256, 65534, 65535, 65536, 65537, 70000, 1<<20 + 1} {
			for _, e := range escapes[kind] {
				i++
				if i%nshards != shard {
					continue
				}
				c.Case()
				call := run.Call{API: "search", Expr: fmt.Sprintf("longliteral:%s:%d:%s", kind, n, e.text)}
				run.WatchAs(c, "long", "custom:c16-long", mustJSON(map[string]any{"value": e.value}), call)
				if msg := c16LongVerdict(kind, n, e.text, e.value); msg != "" {
					c.Fail(t, run.Replay{Check: "long", Kind: "custom:c16-long", Calls: []run.Call{call}, Message: fmt.Sprintf("%s literal with %d plain characters before the escape %s: %s", kind, n, e.text, truncate(msg, 300)),
						Extra: mustJSON(map[string]any{"value": e.value})}, kind)
					return
				}
				c.NonTrivial(fmt.Sprint(kind, n, e.text), func() any { return map[string]any{"syntax": kind, "plain_prefix": n, "escape": e.text} })
			}
		}
	}
}

func c16LongVerdict(kind string, n int, escText, escValue string) string {
	prefix := strings.Repeat("k", n)
	want := prefix + escValue + "z"
	var text string
	var data any
	var wantVal jv.Val
	switch kind {
	case "quoted":
		text = `"` + prefix + escText + `z"`
		data = map[string]any{want: "hit", prefix: "miss", "": "miss"}
		wantVal = jv.VStr("hit")
	case "json":
		text = "`\"" + prefix + escText + "z\"`"
		wantVal = jv.VStr(want)
	default:
		text = "'" + prefix + escText + "z'"
		wantVal = jv.VStr(want)
	}
	for _, o := range []run.Outcome{run.Search(text, data), func() run.Outcome {
		e, co := run.Compile(text)
		if e == nil {
			return co
		}
		return run.ExprSearch(e, data)
	}()} {
		if msg := run.CheckAgainst(model.Res{V: wantVal}, o); msg != "" {
			return msg
		}
	}
	return ""
}

func init() {
	customReplays["custom:c16-long"] = func(r run.Replay) string {
		var ex struct {
			Value string `json:"value"`
		}
		if len(r.Calls) == 0 || jsonUnmarshal(r.Extra, &ex) != nil {
			return "malformed replay"
		}
		parts := strings.SplitN(r.Calls[0].Expr, ":", 4)
		if len(parts) != 4 {
			return "malformed replay"
		}
		n, _ := strconv.Atoi(parts[2])
		return c16LongVerdict(parts[1], n, parts[3], ex.Value)
	}
}

// ---------------------------------------------------------------------------
// Several literals in one expression whose texts between the quotes are the
// same (or nearly the same) characters, in different literal syntaxes: each
// must be decoded by the rules of its own syntax, whatever else the
// expression holds.

type c16Chunk struct{ text, json, raw string }

var c16Chunks = []c16Chunk{
	{"a", "a", "a"}, {"b", "b", "b"}, {"k", "k", "k"}, {" ", " ", " "}, {"é", "é", "é"}, {"😀", "😀", "😀"}, {"$", "$", "$"}, {"n", "n", "n"}, {"u0041", "u0041", "u0041"},
	{`\\`, `\`, `\`}, {`\n`, "\n", `\n`}, {`\t`, "\t", `\t`}, {`\"`, `"`, `\"`}, {`\/`, "/", `\/`}, {`\b`, "\b", `\b`}, {`\f`, "\f", `\f`}, {`\r`, "\r", `\r`},
	{`\u0041`, "A", `\u0041`}, {`\u00e9`, "é", `\u00e9`}, {`\u00E9`, "é", `\u00E9`}, {`\ud83d\ude00`, "😀", `\ud83d\ude00`}, {`\u0027`, "'", `\u0027`}, {`\u005c`, `\`, `\u005c`}, {`\u0022`, `"`, `\u0022`}, {`\u0000`, "\x00", `\u0000`},
}

type c16Body struct{ text, json, raw string }

func c16DrawBody(t *rapid.T, label string) []c16Chunk {
	n := rapid.IntRange(1, 4).Draw(t, label+"-chunks")
	out := make([]c16Chunk, n)
	for i := range out {
		out[i] = gen.Pick(t, label+"-chunk", c16Chunks)
	}
	return out
}

func c16Join(cs []c16Chunk) c16Body {
	var b c16Body
	for _, c := range cs {
		b.text += c.text
		b.json += c.json
		b.raw += c.raw
	}
	return b
}

func TestC16_Shared(t *testing.T) {
	c := collector("C16", "shared")
	check(t, func(t *rapid.T) {
		cs1 := c16DrawBody(t, "b1")
		cs2 := cs1
		switch rapid.IntRange(0, 3).Draw(t, "second") {
		case 0: // one chunk replaced
			cs2 = append([]c16Chunk{}, cs1...)
			cs2[rapid.IntRange(0, len(cs2)-1).Draw(t, "at")] = gen.Pick(t, "repl", c16Chunks)
		case 1: // one chunk more
			cs2 = append(append([]c16Chunk{}, cs1...), gen.Pick(t, "more", c16Chunks))
		case 2:
			cs2 = c16DrawBody(t, "b2")
		}
		bodies := []c16Body{c16Join(cs1), c16Join(cs2)}
		c.Case()
		// the document: members named by the decoded bodies
		var ms []jv.Member
		seen := map[string]bool{}
		lookup := map[string]jv.Val{}
		for i, k := range []string{bodies[0].json, bodies[1].json, bodies[0].raw, bodies[1].raw} {
			if !seen[k] {
				seen[k] = true
				v := jv.VStr(fmt.Sprintf("m%d", i))
				ms = append(ms, jv.Member{K: k, V: v})
				lookup[k] = v
			}
		}
		doc := jv.VObj(ms)
		n := rapid.IntRange(2, 5).Draw(t, "items")
		var texts []string
		var wants []jv.Val
		kinds := map[string]bool{}
		for i := 0; i < n; i++ {
			b := bodies[rapid.IntRange(0, 1).Draw(t, "body")]
			switch k := rapid.IntRange(0, 6).Draw(t, "syntax"); k {
			case 0, 1:
				texts, wants = append(texts, "'"+b.text+"'"), append(wants, jv.VStr(b.raw))
				kinds["raw"] = true
			case 2:
				texts, wants = append(texts, "`\""+b.text+"\"`"), append(wants, jv.VStr(b.json))
				kinds["json"] = true
			case 3:
				texts, wants = append(texts, "\""+b.text+"\""), append(wants, lookup[b.json])
				kinds["quoted"] = true
			case 4:
				texts, wants = append(texts, "{\""+b.text+"\": '"+b.text+"'}"), append(wants, jv.VObj([]jv.Member{{K: b.json, V: jv.VStr(b.raw)}}))
				kinds["quoted"], kinds["raw"] = true, true
			case 5:
				texts, wants = append(texts, "@.\""+b.text+"\""), append(wants, lookup[b.json])
				kinds["quoted"] = true
			default:
				texts, wants = append(texts, "'"+b.text+"' == `\""+b.text+"\"`"), append(wants, jv.VBool(b.raw == b.json))
				kinds["raw"], kinds["json"] = true, true
			}
		}
		var text string
		var want jv.Val
		switch rapid.IntRange(0, 2).Draw(t, "frame") {
		case 0:
			text, want = "["+strings.Join(texts, ", ")+"]", jv.VArr(wants)
		case 1:
			var parts []string
			var wm []jv.Member
			for i := range texts {
				parts = append(parts, fmt.Sprintf("k%d: %s", i, texts[i]))
				wm = append(wm, jv.Member{K: fmt.Sprintf("k%d", i), V: wants[i]})
			}
			text, want = "{"+strings.Join(parts, ",")+"}", jv.VObj(wm)
		default:
			// the first literals only have to be parsed, the last one is the value
			text, want = "["+strings.Join(texts[:n-1], ", ")+"] && "+texts[n-1], wants[n-1]
		}
		node := run.FromVal(doc)
		call := run.Call{API: "search", Expr: text, Doc: &node}
		run.Watch(c, "shared", call)
		res := model.Res{V: want}
		out := run.Search(text, node.Build())
		msg := run.CheckAgainst(res, out)
		if msg == "" {
			if e, co := run.Compile(text); e == nil {
				msg = "Compile fails: " + co.String()
			} else {
				msg = run.CheckAgainst(res, run.ExprSearch(e, node.Build()))
			}
		}
		if msg != "" {
			c.Fail(t, run.Replay{Check: "shared", Kind: "expect", Calls: []run.Call{call}, Expect: &run.Expect{Value: &run.EncVal{V: want}}, Message: msg}, "shared")
			return
		}
		c.Label(fmt.Sprintf("syntaxes-%d", len(kinds)))
		if len(kinds) >= 2 && strings.Contains(bodies[0].text+bodies[1].text, `\`) {
			c.NonTrivial(text, func() any { return map[string]any{"expr": text, "doc": doc.JSON()} })
		}
	})
}
