package props

import (
	"encoding/json"
	"os"
	"testing"

	"verif/harness/gen"
	"verif/harness/run"
)

// collector returns the per-check statistics collector (flushed by TestMain).
func collector(property, check string) *run.Collector { return run.GetCollector(property, check) }

func thorough() bool { return os.Getenv("VERIF_TIER") == "thorough" }

func docCfg() gen.DocCfg {
	if thorough() {
		return gen.ThoroughDoc
	}
	return gen.QuickDoc
}

func TestMain(m *testing.M) {
	code := m.Run()
	run.FlushAll()
	os.Exit(code)
}

func getenv(k, def string) string {
	if v := os.Getenv(k); v != "" {
		return v
	}
	return def
}

func mustJSON(v any) json.RawMessage {
	b, err := json.Marshal(v)
	if err != nil {
		panic(err)
	}
	return b
}

func jsonUnmarshal(b []byte, v any) error { return json.Unmarshal(b, v) }
