package props

import (
	"os"
	"sync"
	"testing"

	"verif/harness/gen"
	"verif/harness/run"
)

var (
	colMu sync.Mutex
	cols  = map[string]*run.Collector{}
)

// collector returns the per-check statistics collector (flushed by TestMain).
func collector(property, check string) *run.Collector {
	colMu.Lock()
	defer colMu.Unlock()
	k := property + "/" + check
	if c, ok := cols[k]; ok {
		return c
	}
	c := run.NewCollector(property, check)
	cols[k] = c
	return c
}

func thorough() bool { return os.Getenv("VERIF_TIER") == "thorough" }

func docCfg() gen.DocCfg {
	if thorough() {
		return gen.ThoroughDoc
	}
	return gen.QuickDoc
}

func TestMain(m *testing.M) {
	code := m.Run()
	for _, c := range cols {
		c.Flush()
	}
	os.Exit(code)
}
