package props

import (
	"fmt"
	"strings"
	"testing"

	"pgregory.net/rapid"

	"verif/harness/ast"
	"verif/harness/gen"
	"verif/harness/jv"
	"verif/harness/model"
	"verif/harness/run"
)

// Correlated queries: one and the same sub-expression is evaluated once per
// element of an outer array, each time with a let variable bound to something
// taken from that element, over a shared array that is reached from the root
// ($.a) or through an outer variable ($A) and is therefore the very same
// value every time. Whatever an implementation remembers between those
// evaluations (sorted results, filtered results, extrema, scopes) is wrong as
// soon as it ignores the variable.

// {Q} is the inner query; {A} the shared array of numbers, {R} of records.
var correlatedOuters = []string{
	"t[*].[let $t = @ in {Q}]",
	"t[*].{r: let $t = @ in {Q}, t: @}",
	"map(&(let $t = @ in {Q}), t)",
	"rows[*].[let $t = id in {Q}]",
	"rows[*].{id: id, r: let $t = v in {Q}}",
	"map(&(let $t = v in {Q}), rows)",
	"let $t = t[0] in [{Q}, t[*].[let $t = @ in {Q}], {Q}]",
	"t[?(let $t = @ in {Q})]",
	"t[*].[let $t = @ in {Q}][]",
	"let $f = t[0] in t[*].[let $t = @ in [{Q}, let $t = $f in {Q}]]",
	"t[*].[let $t = @, $u = `1` in {Q}]",
	"sort_by(t, &(let $t = @ in length(to_array({Q}))))",
	"t | [*].[let $t = @ in {Q}]",
	"[t[0], t[1], t[2]][*].[let $t = @ in {Q}]",
	"t[*].[let $t = @ in {Q}] | [-1]",
	"t[::-1].[let $t = @ in {Q}]",
	"t[*].[let $u = @ in let $t = $u in {Q}]",
	"[let $t = t[0] in {Q}, let $t = t[1] in {Q}, let $t = t[0] in {Q}]",
}

var correlatedSorts = []string{
	"sort_by({A}, &abs(@ - $t))", "sort_by({R}, &abs(v - $t))[*].id", "sort_by({R}, &(id == $t && 'a' || name))[*].id", "sort_by({A}, &(@ < $t && `0` || @))",
	"max_by({R}, &abs(v - $t)).id", "min_by({R}, &abs(v - $t)).id", "min_by({A}, &abs(@ - $t))", "sort_by({R}, &(v * $t))[*].id", "max_by({R}, &(v * $t)).id", "min_by({A}, &(@ * $t))",
	"sort({A}[?@ != $t])", "max({A}[?@ < $t])", "min([$t, {A}[0]])", "max([{A}[-1], $t])", "sort_by({R}, &(v - $t))[0].id", "sort([$t, {A}[0], {A}[1]])",
	"sort_by({A}, &abs(@ - $t)) | [0]", "sort_by({R}, &(name == 'b' && $t || v))[*].id", "max_by({A}, &abs(@ - $t))", "reverse(sort_by({A}, &abs(@ - $t)))",
}

var correlatedFilters = []string{
	"{A}[?@ > $t]", "{A}[?@ == $t]", "{A}[?@ != $t] | [0]", "{R}[?id == $t]", "{R}[?id == $t] | [0].name", "{R}[?id == $t].name", "{R}[?v >= $t].id", "length({A}[?@ <= $t])",
	"map(&(@ + $t), {A})", "map(&[@, $t], {A})", "{A}[*].[@, $t]", "contains({A}, $t)", "sum({A}[?@ < $t])", "{A} | [?@ > $t]", "{R} | [?id != $t] | [*].id", "{R}[?id == $t || v == $t].name",
	"[$t, {A}[0]]", "$t", "{R}[?id == $t] | length(@)", "{A}[?$t]", "{A}[?!$t]", "{A}[?$t == `1`]", "{R}[?name == 'b' && v < $t].id", "{A}[?@ > $t] | [-1]", "{R}[?id == $t][]", "{A}[?@ >= $t && @ <= $t]",
	"{R}[*].[id == $t]", "{A}[?@ > $t][?@ > $t]", "not_null({R}[?id == $t] | [0], $t)",
}

var correlatedNums = []string{"0", "1", "2", "3", "5", "-1", "-2", "2.5", "10", "1.0"}

func correlatedDoc(t *rapid.T) jv.Val {
	nums := func(label string, max int, nulls bool) jv.Val {
		n := rapid.IntRange(0, max).Draw(t, label)
		a := make([]jv.Val, n)
		for i := range a {
			if nulls && rapid.IntRange(0, 19).Draw(t, label+"-null") == 0 {
				a[i] = jv.VNull()
				continue
			}
			a[i] = jv.VNumText(gen.Pick(t, label+"-num", correlatedNums))
		}
		return jv.VArr(a)
	}
	n := rapid.IntRange(0, 5).Draw(t, "rows")
	rows := make([]jv.Val, n)
	for i := range rows {
		ms := []jv.Member{{K: "id", V: jv.VNumText(gen.Pick(t, "id", []string{"0", "1", "2", "3", "5"}))}}
		if rapid.IntRange(0, 14).Draw(t, "v-missing") != 0 {
			ms = append(ms, jv.Member{K: "v", V: jv.VNumText(gen.Pick(t, "v", correlatedNums))})
		}
		ms = append(ms, jv.Member{K: "name", V: jv.VStr(gen.Pick(t, "name", []string{"n0", "n1", "n2", "b", "a"}))})
		rows[i] = jv.VObj(ms)
	}
	return jv.VObj([]jv.Member{{K: "a", V: nums("a", 6, false)}, {K: "t", V: nums("t", 4, true)}, {K: "rows", V: jv.VArr(rows)}})
}

func correlatedCase(t *rapid.T, c *run.Collector, check string, inners []string) {
	doc := correlatedDoc(t)
	outer := gen.Pick(t, "outer", correlatedOuters)
	text := outer
	for strings.Contains(text, "{Q}") {
		// (each occurrence may be a different query)
		text = strings.Replace(text, "{Q}", gen.Pick(t, "inner", inners), 1)
	}
	A, R := "$.a", "$.rows"
	switch rapid.IntRange(0, 3).Draw(t, "shared") {
	case 0:
		A, R = "$A", "$R"
		text = "let $A = a, $R = rows in " + text
	case 1:
		A, R = "$.a[*]", "$.rows[*]"
	}
	text = strings.ReplaceAll(strings.ReplaceAll(text, "{A}", A), "{R}", R)
	pr := ast.Parse(text)
	c.Case()
	if pr.Verdict != ast.In {
		if pr.Verdict == ast.Out {
			t.Fatalf("HARNESS-BUG: correlated query %q does not parse: %s", text, pr.Reason)
		}
		c.Skip("reference-parser-undetermined")
		return
	}
	res, _ := model.Eval(pr.Expr, doc)
	if res.Undet != "" {
		c.Skip(res.Undet)
		return
	}
	if modelDiff(t, c, check, pr.Expr, text, doc, res) {
		return
	}
	ts, _ := doc.Get("t")
	as, _ := doc.Get("a")
	distinct := map[string]bool{}
	for _, e := range ts.A {
		distinct[e.JSON()] = true
	}
	c.Label(fmt.Sprintf("outer-%d", minInt(len(distinct), 3)))
	if len(distinct) >= 2 && len(as.A) >= 2 && res.IsValue() {
		c.NonTrivial(text+"\x00"+doc.JSON(), func() any { return map[string]any{"expr": text, "doc": doc.JSON(), "outcome": describe(res)} })
	}
}

// C19: a variable keeps the value of its nearest enclosing binding in every
// evaluation of the sub-expression that reads it, however often that
// sub-expression is evaluated within one search.
func TestC19_Correlated(t *testing.T) {
	c := collector("C19", "correlated")
	all := append(append([]string{}, correlatedFilters...), correlatedSorts...)
	check(t, func(t *rapid.T) { correlatedCase(t, c, "correlated", all) })
}

// C13: sort_by / max_by / min_by order by the keys of this evaluation, also
// when the key expression reads a variable that differs from one evaluation
// of the call to the next.
func TestC13_Rebound(t *testing.T) {
	c := collector("C13", "rebound")
	check(t, func(t *rapid.T) { correlatedCase(t, c, "rebound", correlatedSorts) })
}
