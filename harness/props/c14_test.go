package props

import (
	"fmt"
	"math/big"
	"strconv"
	"strings"
	"testing"

	"pgregory.net/rapid"

	"verif/harness/ast"
	"verif/harness/gen"
	"verif/harness/jv"
	"verif/harness/model"
	"verif/harness/run"
)

var c14Big = []string{"2147483647", "2147483648", "4294967295", "4294967296", "9007199254740992", "9007199254740993", "4611686018427387904", "9223372036854775807", "9223372036854775808", "9223372036854775809", "18446744073709551615", "-2147483648", "-2147483649", "-9223372036854775808"}

// c14Num draws a number that every carrier family can hold exactly: a small
// integer, or a dyadic fraction with few bits; with big set (templates that do
// no arithmetic) also integers at the limits of the Go integer kinds.
func c14Num(t *rapid.T, big_ bool) *big.Rat {
	if big_ && rapid.IntRange(0, 3).Draw(t, "bigkind") == 0 {
		r, _ := new(big.Rat).SetString(gen.Pick(t, "big", c14Big))
		return r
	}
	switch rapid.IntRange(0, 9).Draw(t, "numkind") {
	case 0:
		return big.NewRat(int64(rapid.IntRange(-5, 5).Draw(t, "i")), 2) // halves
	case 1:
		return big.NewRat(int64(rapid.IntRange(-9, 9).Draw(t, "i")), 4) // quarters
	case 2:
		return big.NewRat(int64(gen.Pick(t, "edge", []int{0, 127, 128, -128, -129, 255, 256, 32767, 32768, 65535, 65536, 1 << 20})), 1)
	case 3:
		// fine dyadic fractions: exact in float32 (24-bit significand) and in
		// every other carrier, but with 10 to 20 significant decimal digits
		// (1 + 2^-10 = 1.0009765625), so that a conversion through the
		// shortest float text changes the value
		e := rapid.IntRange(5, 20).Draw(t, "dyadexp")
		return big.NewRat(int64(2*rapid.IntRange(-2000, 2000).Draw(t, "dyadnum")+1), int64(1)<<uint(e))
	}
	return big.NewRat(int64(rapid.IntRange(-4, 12).Draw(t, "i")), 1)
}

// carrierFor draws a Go representation able to hold r exactly.
func carrierFor(t *rapid.T, r *big.Rat) run.Node {
	var opts []run.Node
	txt := jv.RatText(r)
	opts = append(opts, run.Node{T: "json.Number", S: txt}, run.Node{T: "decimal", S: txt})
	if _, exact := r.Float64(); exact {
		opts = append(opts, run.Node{T: "float64", S: txt})
	}
	if _, exact := r.Float32(); exact {
		opts = append(opts, run.Node{T: "float32", S: txt})
	}
	if r.IsInt() && !r.Num().IsInt64() {
		// beyond int64: only the unsigned 64-bit kinds remain
		if r.Num().IsUint64() {
			opts = append(opts, run.Node{T: "uint", S: txt}, run.Node{T: "uint64", S: txt}, run.Node{T: "json.Number", S: txt + ".0"})
		}
	} else if r.IsInt() {
		i := r.Num().Int64()
		is := strconv.FormatInt(i, 10)
		opts = append(opts, run.Node{T: "json.Number", S: is + ".0"}, run.Node{T: "json.Number", S: is + "e0"}, run.Node{T: "int", S: is}, run.Node{T: "int64", S: is}, run.Node{T: "decimal", S: is + ".00"})
		if i != 0 {
			opts = append(opts, run.Node{T: "json.Number", S: is + "0e-1"})
		}
		if i >= -128 && i <= 127 {
			opts = append(opts, run.Node{T: "int8", S: is})
		}
		if i >= -32768 && i <= 32767 {
			opts = append(opts, run.Node{T: "int16", S: is})
		}
		if i >= -(1<<31) && i < 1<<31 {
			opts = append(opts, run.Node{T: "int32", S: is})
		}
		if i >= 0 {
			opts = append(opts, run.Node{T: "uint", S: is}, run.Node{T: "uint64", S: is})
			if i < 1<<32 {
				opts = append(opts, run.Node{T: "uint32", S: is})
			}
			if i <= 255 {
				opts = append(opts, run.Node{T: "uint8", S: is})
			}
			if i <= 65535 {
				opts = append(opts, run.Node{T: "uint16", S: is})
			}
		}
	} else {
		// 2.5 -> 2.50, also as a decimal with another scale, and in exponent form
		opts = append(opts, run.Node{T: "json.Number", S: txt + "0"}, run.Node{T: "decimal", S: txt + "00"}, run.Node{T: "json.Number", S: txt + "e0"}, run.Node{T: "json.Number", S: txt + "E+0"})
		// the same value without a decimal point: 2.5 -> 25e-1, 25E-1, 250e-2
		if i := strings.IndexByte(txt, '.'); i >= 0 && !strings.ContainsAny(txt, "eE") {
			digits := strings.TrimLeft(strings.Replace(txt, ".", "", 1), "0")
			neg := ""
			if strings.HasPrefix(digits, "-") {
				neg, digits = "-", strings.TrimLeft(digits[1:], "0")
			}
			k := len(txt) - i - 1
			if digits != "" {
				opts = append(opts, run.Node{T: "json.Number", S: neg + digits + "e-" + strconv.Itoa(k)}, run.Node{T: "json.Number", S: neg + digits + "E-" + strconv.Itoa(k)}, run.Node{T: "json.Number", S: neg + digits + "0e-" + strconv.Itoa(k+1)}, run.Node{T: "decimal", S: neg + digits + "e-" + strconv.Itoa(k)})
			}
		}
	}
	if r.Sign() == 0 {
		// the zeros: negative zero and zeros with a scale are the number 0
		opts = append(opts, run.Node{T: "json.Number", S: "-0"}, run.Node{T: "json.Number", S: "-0.0"}, run.Node{T: "json.Number", S: "0e5"}, run.Node{T: "decimal", S: "-0"}, run.Node{T: "decimal", S: "0e-3"}, run.Node{T: "float64", S: "-0"}, run.Node{T: "float32", S: "-0"})
	}
	return opts[rapid.IntRange(0, len(opts)-1).Draw(t, "carrier")]
}

// recarry rebuilds a document description with a drawn carrier for every
// number leaf (baseline: canonical json.Number).
func recarry(t *rapid.T, v jv.Val, draw bool, kinds map[string]bool) run.Node {
	switch v.K {
	case jv.Num:
		if !draw {
			return run.Node{T: "json.Number", S: jv.RatText(v.R)}
		}
		n := carrierFor(t, v.R)
		kinds[n.T] = true
		return n
	case jv.Arr:
		n := run.Node{T: "array", A: make([]run.Node, len(v.A))}
		for i, e := range v.A {
			n.A[i] = recarry(t, e, draw, kinds)
		}
		return n
	case jv.Obj:
		n := run.Node{T: "object", A: make([]run.Node, len(v.O)), K: make([]string, len(v.O))}
		for i, m := range v.O {
			n.K[i] = m.K
			n.A[i] = recarry(t, m.V, draw, kinds)
		}
		return n
	}
	return run.FromVal(v)
}

func c14Expr(t *rapid.T) (ast.Expr, string) {
	x, y, n, r, s := ast.F("x"), ast.F("y"), ast.F("n"), ast.F("r"), ast.F("s")
	k := ast.Ref(ast.F("k"))
	lit := func(v int) ast.Expr { return ast.Lit(jv.VInt(int64(v))) }
	type tmpl struct {
		name string
		e    ast.Expr
	}
	cmp := gen.Pick(t, "cmp", []string{"<", "<=", ">", ">=", "==", "!="})
	ar := gen.Pick(t, "ar", []string{"+", "-", "*", "//", "%"})
	ts := []tmpl{
		{"compare", ast.Bin(cmp, x, y)},
		{"compare-literal", ast.Bin(cmp, x, lit(rapid.IntRange(-2, 3).Draw(t, "lit")))},
		{"filter-compare", n.With(ast.Step{Kind: ast.SFilter, Cond: ast.Bin(cmp, ast.Cur(), x)})},
		{"contains", ast.Call("contains", ast.A(n), ast.A(x))},
		{"equal-arrays", ast.Bin("==", n, ast.F("m"))},
		{"equal-objects", ast.Bin("==", ast.F("o"), ast.F("p"))},
		{"sort", ast.Call("sort", ast.A(n))},
		{"sort_by", ast.Call("sort_by", ast.A(r), k)},
		{"max", ast.Call("max", ast.A(n))},
		{"min", ast.Call("min", ast.A(n))},
		{"max_by", ast.Call("max_by", ast.A(r), k).With(ast.Step{Kind: ast.SField, Name: "k"})},
		{"min_by", ast.Call("min_by", ast.A(r), k).With(ast.Step{Kind: ast.SField, Name: "k"})},
		{"sum", ast.Call("sum", ast.A(n))},
		{"abs", ast.Call("abs", ast.A(x))},
		{"ceil", ast.Call("ceil", ast.A(x))},
		{"floor", ast.Call("floor", ast.A(x))},
		{"arith", ast.Bin(ar, x, y)},
		{"arith-literal", ast.Bin(ar, x, lit(rapid.IntRange(1, 3).Draw(t, "alit")))},
		{"arith-chain", ast.Bin("+", ast.Bin("*", x, y), ast.Call("sum", ast.A(n)))},
		{"negate", &ast.Unary{Op: "-", X: x}},
		{"plus", &ast.Unary{Op: "+", X: x}},
		{"truthy-and", ast.Bin("&&", x, ast.RawS("T"))},
		{"truthy-not", &ast.Unary{Op: "!", X: x}},
		{"truthy-filter", n.With(ast.Step{Kind: ast.SFilter, Cond: ast.Cur()})},
		{"type", ast.Call("type", ast.A(x))},
		{"type-map", ast.Call("map", ast.Ref(ast.Call("type", ast.A(ast.Cur()))), ast.A(n))},
		{"to_number", ast.Call("to_number", ast.A(x))},
		{"not_null", ast.Call("not_null", ast.A(ast.F("missing")), ast.A(x))},
		{"multiselect", &ast.Chain{Head: ast.Head{Kind: ast.HMultiList, Items: []ast.Expr{x, y, ast.Bin("==", x, y)}}}},
		{"pad_left", ast.Call("pad_left", ast.A(s), ast.A(x))},
		{"pad_right", ast.Call("pad_right", ast.A(s), ast.A(x), ast.A(ast.RawS("-")))},
		{"split-count", ast.Call("split", ast.A(s), ast.A(ast.RawS(",")), ast.A(x))},
		{"replace-count", ast.Call("replace", ast.A(s), ast.A(ast.RawS("a")), ast.A(ast.RawS("b")), ast.A(x))},
		{"find-start", ast.Call("find_first", ast.A(s), ast.A(ast.RawS("a")), ast.A(x))},
		{"find-window", ast.Call("find_last", ast.A(s), ast.A(ast.RawS("a")), ast.A(x), ast.A(y))},
		{"group_by-type", ast.Call("group_by", ast.A(n), ast.Ref(ast.Call("type", ast.A(ast.Cur())))).With(ast.Step{Kind: ast.SField, Name: "number"})},
		{"zip", ast.Call("zip", ast.A(n), ast.A(ast.F("m")))},
		{"reverse", ast.Call("reverse", ast.A(n))},
		{"flatten-filter", ast.F("nn").With(ast.Step{Kind: ast.SFlatten}, ast.Step{Kind: ast.SFilter, Cond: ast.Bin(cmp, ast.Cur(), y)})},
		{"or-default", ast.Bin("||", ast.F("z"), x)},
		// % and // on operands with many significant bits (exact in binary64 and
		// in decimal128): the remainder is exact in every carrier, a formula such
		// as x - y*trunc(x/y) on floats is not
		{"mod-many-bits", ast.Bin("%", x, y)},
		{"mod-many-bits", &ast.Chain{Head: ast.Head{Kind: ast.HMultiList, Items: []ast.Expr{ast.Bin("%", x, y), ast.Bin("//", x, y), ast.Bin("==", ast.Bin("%", x, y), ast.Bin("%", x, y))}}}},
		// a number where a string is expected or compared: sx is a string that
		// contains the canonical text of x
		{"contains-string", ast.Call("contains", ast.A(ast.F("sx")), ast.A(x))},
		{"contains-strings", ast.Call("contains", ast.A(&ast.Chain{Head: ast.Head{Kind: ast.HMultiList, Items: []ast.Expr{ast.F("sx"), ast.F("tx")}}}), ast.A(x))},
		{"equals-its-text", ast.Bin("==", x, ast.F("tx"))},
		{"starts_with-number", ast.Call("starts_with", ast.A(ast.F("tx")), ast.A(x))},
		{"find-number", ast.Call("find_first", ast.A(ast.F("sx")), ast.A(x))},
		{"split-number", ast.Call("split", ast.A(ast.F("sx")), ast.A(x))},
		{"join-number", ast.Call("join", ast.A(x), ast.A(&ast.Chain{Head: ast.Head{Kind: ast.HMultiList, Items: []ast.Expr{ast.F("sx"), ast.F("tx")}}}))},
		{"sort-with-text", ast.Call("sort", ast.A(&ast.Chain{Head: ast.Head{Kind: ast.HMultiList, Items: []ast.Expr{x, ast.F("tx")}}}))},
		// arithmetic between an integer beyond 2^53 (held by an integer kind, a
		// decimal or a json.Number) and a small operand (held by anything, a
		// float included), chosen so that the exact result is itself a binary64
		// value and fits the 64-bit integer kinds in play
		{"arith-big-mixed", ast.Bin(gen.Pick(t, "bigop", []string{"+", "-", "*"}), x, y)},
		{"arith-big-mixed", ast.Bin(gen.Pick(t, "bigop2", []string{"+", "-", "*"}), y, x)},
		{"arith-big-mixed", &ast.Chain{Head: ast.Head{Kind: ast.HMultiList, Items: []ast.Expr{ast.Bin("+", x, y), ast.Bin("-", x, y), ast.Bin("==", ast.Bin("+", x, y), x), ast.Bin("<", ast.Bin("-", x, y), x)}}}},
		{"length-number", ast.Call("length", ast.A(x))},
		{"index-number", x.With(ast.Step{Kind: ast.SIndex, Index: 0})},
		{"slice-number", ast.Paren(x).With(ast.Step{Kind: ast.SSlice, Stop: ast.I64(1)})},
		{"field-of-number", x.With(ast.Step{Kind: ast.SField, Name: "a"})},
		{"keys-number", ast.Call("keys", ast.A(x))},
	}
	tm := ts[rapid.IntRange(0, len(ts)-1).Draw(t, "template")]
	return tm.e, tm.name
}

// c14NoArith: templates whose evaluation computes no new number (so values at
// the limits of the integer kinds stay exactly representable everywhere).
var c14NoArith = map[string]bool{"compare": true, "compare-literal": true, "filter-compare": true, "contains": true, "equal-arrays": true, "equal-objects": true, "sort": true, "sort_by": true,
	"max": true, "min": true, "max_by": true, "min_by": true, "truthy-and": true, "truthy-not": true, "truthy-filter": true, "type": true, "type-map": true, "to_number": true, "not_null": true,
	"multiselect": true, "group_by-type": true, "zip": true, "reverse": true, "flatten-filter": true, "or-default": true, "plus": true,
	"contains-string": true, "contains-strings": true, "equals-its-text": true, "starts_with-number": true, "find-number": true, "split-number": true, "join-number": true, "sort-with-text": true,
	"length-number": true, "index-number": true, "slice-number": true, "field-of-number": true, "keys-number": true,
	// offsets may be any integer (they are clamped): the limits of the integer kinds belong here too
	"find-start": true, "find-window": true}

// C14: results do not depend on which Go type carries a number.
func TestC14_Carriers(t *testing.T) {
	c := collector("C14", "carriers")
	check(t, func(t *rapid.T) {
		e, name := c14Expr(t)
		num := func() jv.Val { return jv.VRat(c14Num(t, c14NoArith[name])) }
		nums := func() []jv.Val {
			k := rapid.IntRange(0, 5).Draw(t, "len")
			a := make([]jv.Val, k)
			for i := range a {
				a[i] = num()
			}
			return a
		}
		n := nums()
		recs := make([]jv.Val, rapid.IntRange(0, 5).Draw(t, "nrec"))
		for i := range recs {
			recs[i] = jv.VObj([]jv.Member{{K: "k", V: num()}, {K: "id", V: jv.VInt(int64(i))}})
		}
		o := jv.VObj([]jv.Member{{K: "a", V: num()}, {K: "b", V: jv.VArr(nums())}})
		zero := gen.Pick(t, "z", []jv.Val{jv.VNull(), jv.VInt(0), jv.VBool(false)})
		xv := num()
		yv := num()
		if name == "mod-many-bits" {
			big2 := func(label string, pal []string) jv.Val {
				r, _ := new(big.Rat).SetString(gen.Pick(t, label, pal))
				return jv.VRat(r)
			}
			xv = big2("manybits-x", []string{"1073741824", "1099511627777", "2147483647", "1543209.75", "4294967296.5", "9007199254740991", "281474976710656.25", "1000000007"})
			yv = big2("manybits-y", []string{"1.000000000931322574615478515625", "1.00000095367431640625", "3.0000000298023223876953125", "0.753906253725290298461914062500", "7.00048828125", "1.5", "1048576.0009765625", "0.0000152587890625"})
		}
		bigMixed := name == "arith-big-mixed"
		if bigMixed {
			r, _ := new(big.Rat).SetString(gen.Pick(t, "bigmixed-x", []string{"9007199254740993", "9007199254740995", "-9007199254740993", "18014398509481985", "4611686018427387905", "9223372036854775805", "-9223372036854775807", "9007199254740992", "36028797018963967", "1152921504606846977", "72057594037927937", "-4611686018427387903"}))
			xv = jv.VRat(r)
			q, _ := new(big.Rat).SetString(gen.Pick(t, "bigmixed-y", []string{"1", "-1", "2", "3", "-3", "0", "4", "0.5", "1.5", "255", "-2", "5"}))
			yv = jv.VRat(q)
		}
		xt := jv.RatText(xv.R)
		doc := jv.VObj([]jv.Member{{K: "x", V: xv}, {K: "sx", V: jv.VStr("id-" + xt + "-z")}, {K: "tx", V: jv.VStr(xt)}, {K: "y", V: yv}, {K: "z", V: zero}, {K: "n", V: jv.VArr(n)}, {K: "m", V: jv.VArr(n)}, {K: "nn", V: jv.VArr([]jv.Val{jv.VArr(n), num(), jv.VArr(nums())})},
			{K: "r", V: jv.VArr(recs)}, {K: "o", V: o}, {K: "p", V: o}, {K: "s", V: jv.VStr("a,b,a,,a")}})
		text := ast.RenderWith(e, gen.Chooser{T: t})
		c.Case()
		kinds := map[string]bool{}
		base := recarry(t, doc, false, kinds)
		drawn := recarry(t, doc, true, kinds)
		res, _ := model.Eval(e, doc)
		if bigMixed {
			// in scope only if every number computed on the way fits the kinds in
			// play: a binary64 value when a float carries an operand, within the
			// 64-bit range of the signed / unsigned kinds when those do (float32
			// leaves become float64 here: the results have more than 24 bits)
			widenFloat32(&drawn)
			delete(kinds, "float32")
			ok := true
			used := map[string]bool{}
			var ops func(e ast.Expr)
			ops = func(e ast.Expr) {
				switch v := e.(type) {
				case *ast.Binary:
					used[v.Op] = true
					ops(v.L)
					ops(v.R)
				case *ast.Chain:
					for _, it := range v.Head.Items {
						ops(it)
					}
				}
			}
			ops(e)
			for _, op := range []string{"+", "-", "*"} {
				for _, pair := range [][2]*big.Rat{{xv.R, yv.R}, {yv.R, xv.R}} {
					z := new(big.Rat)
					switch op {
					case "+":
						z.Add(pair[0], pair[1])
					case "-":
						z.Sub(pair[0], pair[1])
					default:
						z.Mul(pair[0], pair[1])
					}
					if !used[op] {
						continue
					}
					if _, exact := z.Float64(); !exact {
						ok = false
					}
					if z.IsInt() && !z.Num().IsInt64() && !z.Num().IsUint64() {
						ok = false
					}
					if z.IsInt() && !z.Num().IsInt64() && hasSigned(kinds) {
						ok = false
					}
					if z.Sign() < 0 && hasUnsigned(kinds) {
						ok = false
					}
				}
			}
			if !ok {
				c.Skip("big-mixed result outside the carriers in play")
				return
			}
		}
		calls := []run.Call{{API: "search", Expr: text, Doc: &base}, {API: "search", Expr: text, Doc: &drawn}}
		run.Watch(c, "carriers", calls...)
		ob := run.Search(text, base.Build())
		od := run.Search(text, drawn.Build())
		msg := run.SameOutcomeMF(ob, od, false, res.Undet != "" || res.Err.Count() > 1)
		if msg == "" && od.IsValue() && (od.Info.BadNumber != "" || od.Info.Foreign != "") {
			msg = "result is not a plain finite number: " + od.String()
		}
		if msg != "" {
			c.Fail(t, run.Replay{Check: "carriers", Kind: "same", Calls: calls, Message: "all-json.Number vs drawn carriers (" + name + "): " + msg}, name)
			return
		}
		if res.Undet == "" {
			if m := run.CheckAgainst(res, od); m != "" {
				exp := &run.Expect{}
				if res.Err != 0 {
					exp.Errors = res.Err.Names()
				} else {
					exp.Value = &run.EncVal{V: res.V}
				}
				c.Fail(t, run.Replay{Check: "carriers-model", Kind: "expect", Calls: calls[1:], Expect: exp, Message: m}, "model:"+name)
				return
			}
		} else {
			c.Skip(res.Undet)
		}
		c.Label(name)
		if len(kinds) >= 2 {
			c.NonTrivial(text+"\x00"+drawn.Text()+fmt.Sprint(carrierList(drawn)), func() any {
				return map[string]any{"expr": text, "doc": drawn.Text(), "carriers": carrierList(drawn), "outcome": truncate(od.String(), 200)}
			})
		}
	})
}

func widenFloat32(n *run.Node) {
	if n.T == "float32" {
		n.T = "float64"
	}
	for i := range n.A {
		widenFloat32(&n.A[i])
	}
}

func hasSigned(kinds map[string]bool) bool {
	return kinds["int"] || kinds["int8"] || kinds["int16"] || kinds["int32"] || kinds["int64"]
}

func hasUnsigned(kinds map[string]bool) bool {
	return kinds["uint"] || kinds["uint8"] || kinds["uint16"] || kinds["uint32"] || kinds["uint64"]
}

func carrierList(n run.Node) []string {
	var out []string
	var walk func(n run.Node)
	walk = func(n run.Node) {
		switch n.T {
		case "array", "object":
			for _, e := range n.A {
				walk(e)
			}
		case "null", "bool", "string":
		default:
			out = append(out, n.T+":"+n.S)
		}
	}
	walk(n)
	return out
}
