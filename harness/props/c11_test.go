package props

import (
	"fmt"
	"sort"
	"strconv"
	"strings"
	"testing"
	"unicode/utf8"

	"pgregory.net/rapid"

	"verif/harness/ast"
	"verif/harness/gen"
	"verif/harness/jv"
	"verif/harness/model"
	"verif/harness/run"
)

// (with the first and last code point of every UTF-8 length)
var c11Runes = []rune{'a', 'b', 'c', 'a', 'b', 'é', 'ß', 'ж', '日', '本', '😀', '𝒜', ' ', '0', ',', '́', '�', 0x7f, 0x80, 0x7ff, 0x800, 0xd7ff, 0xe000, 0xffff, 0x10000, 0x10ffff,
	// building blocks of grapheme clusters (flags, ZWJ sequences, modifiers, jamo, keycaps): still single code points
	0x1f1e9, 0x1f1ea, 0x1f1eb, 0x1f1e9, 0x1f1ea, 0x200d, 0xfe0f, 0x1f3fb, 0x1f468, 0x1100, 0x1161, 0x20e3}

func mixedString(t *rapid.T, maxLen int) string {
	n := rapid.IntRange(0, maxLen).Draw(t, "slen")
	rs := make([]rune, n)
	for i := range rs {
		rs[i] = gen.Pick(t, "r", c11Runes)
	}
	if maxLen > 4 && n > 0 && rapid.IntRange(0, 39).Draw(t, "longsubject") == 0 {
		// the same characters repeated past 1 KiB, 4 KiB or 64 KiB (where
		// implementations switch to another algorithm or buffer)
		target := gen.Pick(t, "longbytes", []int{1024, 1100, 4097, 8193, 65537})
		return strings.Repeat(string(rs), target/len(string(rs))+1)
	}
	return string(rs)
}

func substringOf(t *rapid.T, s string, maxLen int) string {
	rs := []rune(s)
	if len(rs) == 0 || rapid.IntRange(0, 5).Draw(t, "unrelated") == 0 {
		return mixedString(t, 2)
	}
	i := rapid.IntRange(0, len(rs)-1).Draw(t, "from")
	j := rapid.IntRange(i, minInt(len(rs), i+maxLen)).Draw(t, "to")
	return string(rs[i:j])
}

func widths(s string) int {
	seen := map[int]bool{}
	for _, r := range s {
		seen[utf8.RuneLen(r)] = true
	}
	return len(seen)
}

func allStringsValid(v jv.Val) bool {
	switch v.K {
	case jv.Str:
		return utf8.ValidString(v.S)
	case jv.Arr:
		for _, e := range v.A {
			if !allStringsValid(e) {
				return false
			}
		}
	case jv.Obj:
		for _, m := range v.O {
			if !utf8.ValidString(m.K) || !allStringsValid(m.V) {
				return false
			}
		}
	}
	return true
}

// c11Op draws one string operation; strings are supplied through the document
// (fields s, p, q) or as literals. alphabet restricts the characters (for the
// renaming check).
func c11Op(t *rapid.T, str func(max int) string, sub func(s string, max int) string, prefixed func(k int) []string) (ast.Expr, jv.Val, string, string) {
	s := str(10)
	n := len([]rune(s))
	var ms []jv.Member
	supply := func(name string, v jv.Val) ast.Expr {
		switch rapid.IntRange(0, 2).Draw(t, "supply-"+name) {
		case 0:
			if v.K == jv.Str {
				return ast.RawS(v.S)
			}
			return ast.Lit(v)
		case 1:
			return ast.Lit(v)
		}
		ms = append(ms, jv.Member{K: name, V: v})
		return ast.F(name)
	}
	S := supply("s", jv.VStr(s))
	pos := func(label string) ast.Expr {
		return ast.Lit(jv.VInt(int64(rapid.IntRange(-1, n+2).Draw(t, label))))
	}
	optI := func(label string) *int64 {
		if rapid.IntRange(0, 2).Draw(t, label+"-absent") == 0 {
			return nil
		}
		return ast.I64(int64(rapid.IntRange(-n-1, n+1).Draw(t, label)))
	}
	// keys: pieces of s, or strings with a common prefix of 0..17 bytes that go
	// on with characters of different encoded lengths
	keysOf := func(k int) []string {
		if k >= 2 && rapid.IntRange(0, 2).Draw(t, "sharedprefix") == 0 {
			return prefixed(k)
		}
		out := make([]string, k)
		for i := range out {
			out[i] = sub(s, 3)
		}
		return out
	}
	strArr := func() jv.Val {
		k := rapid.IntRange(0, 5).Draw(t, "narr")
		a := make([]jv.Val, k)
		for i, key := range keysOf(k) {
			a[i] = jv.VStr(key)
		}
		return jv.VArr(a)
	}
	recs := func() jv.Val {
		k := rapid.IntRange(0, 6).Draw(t, "nrec")
		a := make([]jv.Val, k)
		for i, key := range keysOf(k) {
			a[i] = jv.VObj([]jv.Member{{K: "k", V: jv.VStr(key)}, {K: "id", V: jv.VInt(int64(i))}})
		}
		return jv.VArr(a)
	}
	var e ast.Expr
	op := gen.Pick(t, "op", []string{"length", "slice", "slice", "reverse", "find_first", "find_last", "find_first", "pad_left", "pad_right", "split", "split", "replace", "trim", "trim_left", "trim_right", "join", "contains", "starts_with", "ends_with", "sort", "max", "min", "sort_by", "max_by", "min_by", "index-of-split", "slice-then-length"})
	switch op {
	case "length", "reverse":
		e = ast.Call(op, ast.A(S))
	case "slice":
		st := ast.Step{Kind: ast.SSlice, Start: optI("start"), Stop: optI("stop")}
		if rapid.Bool().Draw(t, "hasstep") {
			k := int64(rapid.IntRange(-3, 3).Draw(t, "step"))
			if k == 0 {
				k = 2
			}
			st.Stride = ast.I64(k)
		}
		e = ast.Paren(S).With(st)
	case "slice-then-length":
		st := ast.Step{Kind: ast.SSlice, Start: optI("start"), Stop: optI("stop")}
		e = ast.Call("length", ast.A(ast.Paren(S).With(st)))
	case "find_first", "find_last":
		P := supply("p", jv.VStr(sub(s, 3)))
		args := []ast.Arg{ast.A(S), ast.A(P)}
		switch rapid.IntRange(0, 2).Draw(t, "arity") {
		case 1:
			args = append(args, ast.A(pos("start")))
		case 2:
			args = append(args, ast.A(pos("start")), ast.A(pos("end")))
		}
		e = ast.Call(op, args...)
	case "pad_left", "pad_right":
		width := rapid.IntRange(0, n+4).Draw(t, "width")
		if rapid.IntRange(0, 15).Draw(t, "widepad") == 0 {
			// widths around buffer sizes (2^12 .. 2^16 bytes) divided by the
			// 1, 2, 3 and 4 bytes of a pad character
			width = gen.Pick(t, "bigwidth", []int{100, 1023, 1366, 2049, 2731, 2732, 4097, 5462, 6827, 6829, 8193, 10923, 10925, 16385, 21846, 21847, 32769, 65537, 262145, 1000000, 1000001, 1048577})
		}
		w := ast.Lit(jv.VInt(int64(width)))
		args := []ast.Arg{ast.A(S), ast.A(w)}
		if rapid.Bool().Draw(t, "haspad") {
			pad := string([]rune{gen.Pick(t, "padr", c11Runes)})
			if rapid.IntRange(0, 7).Draw(t, "badpad") == 0 {
				pad = gen.Pick(t, "badpadv", []string{"", "ab", "éé", "a😀"})
			}
			args = append(args, ast.A(supply("p", jv.VStr(pad))))
		}
		e = ast.Call(op, args...)
	case "split":
		sep := sub(s, 2)
		if rapid.IntRange(0, 2).Draw(t, "emptysep") == 0 {
			sep = ""
		}
		args := []ast.Arg{ast.A(S), ast.A(supply("p", jv.VStr(sep)))}
		if rapid.Bool().Draw(t, "hascount") {
			args = append(args, ast.A(ast.Lit(jv.VInt(int64(rapid.IntRange(0, n+1).Draw(t, "count"))))))
		}
		e = ast.Call(op, args...)
	case "index-of-split":
		e = ast.Call("split", ast.A(S), ast.A(ast.RawS(""))).With(ast.Step{Kind: ast.SIndex, Index: int64(rapid.IntRange(-n, n).Draw(t, "idx"))})
	case "replace":
		oldStr := sub(s, 2)
		if rapid.IntRange(0, 5).Draw(t, "emptyold") == 0 {
			oldStr = "" // what it means is not pinned; that the result is valid UTF-8 is
		}
		args := []ast.Arg{ast.A(S), ast.A(supply("p", jv.VStr(oldStr))), ast.A(supply("q", jv.VStr(str(3))))}
		if rapid.Bool().Draw(t, "hascount") {
			args = append(args, ast.A(ast.Lit(jv.VInt(int64(rapid.IntRange(0, 3).Draw(t, "count"))))))
		}
		e = ast.Call(op, args...)
	case "trim", "trim_left", "trim_right":
		args := []ast.Arg{ast.A(S)}
		if rapid.Bool().Draw(t, "haschars") {
			args = append(args, ast.A(supply("p", jv.VStr(sub(s, 3)))))
		}
		e = ast.Call(op, args...)
	case "join":
		e = ast.Call(op, ast.A(supply("p", jv.VStr(sub(s, 2)))), ast.A(supply("q", strArr())))
	case "contains", "starts_with", "ends_with":
		e = ast.Call(op, ast.A(S), ast.A(supply("p", jv.VStr(sub(s, 3)))))
	case "sort", "max", "min":
		e = ast.Call(op, ast.A(supply("q", strArr())))
	default: // sort_by max_by min_by
		e = ast.Call(op, ast.A(supply("q", recs())), ast.Ref(ast.F("k")))
	}
	return e, jv.VObj(ms), op, s
}

// C11 (model half): string operations count code points and never corrupt text.
func TestC11_Strings(t *testing.T) {
	c := collector("C11", "strings")
	check(t, func(t *rapid.T) {
		e, doc, op, s := c11Op(t, func(max int) string { return mixedString(t, max) }, func(s string, max int) string { return substringOf(t, s, max) }, func(k int) []string { return prefixedKeys(t, k) })
		text := ast.RenderWith(e, gen.Chooser{T: t})
		c.Case()
		res, _ := model.Eval(e, doc)
		if res.Undet != "" {
			// what the value is is not pinned -- that nothing panics and that
			// every string in the result of valid UTF-8 input is valid UTF-8, is
			node := run.FromVal(doc)
			call := run.Call{API: "search", Expr: text, Doc: &node}
			run.Watch(c, "strings", call)
			out := run.Search(text, node.Build())
			msg := ""
			switch {
			case out.Panic != "":
				msg = "library panicked: " + out.Panic
			case out.IsValue() && out.Info.BadUTF8:
				msg = "the result on valid UTF-8 input contains a string that is not valid UTF-8: " + truncate(out.String(), 300)
			}
			if msg != "" {
				c.Fail(t, run.Replay{Check: "strings", Kind: "custom:c11-valid", Calls: []run.Call{call}, Message: msg}, op+":valid")
				return
			}
			c.Skip(res.Undet)
			return
		}
		if modelDiff(t, c, "strings", e, text, doc, res) {
			return
		}
		c.Label(op)
		if widths(s) >= 2 && res.Err == 0 {
			c.NonTrivial(text+"\x00"+doc.JSON(), func() any {
				return map[string]any{"expr": text, "doc": doc.JSON(), "outcome": describe(res)}
			})
		}
	})
}

// renaming: a strictly increasing map from the ASCII letters to multi-byte
// letters (so code point order among letters, and between letters and the
// other characters used -- all below 'A' -- is preserved).
var renamePool = func() []rune {
	var p []rune
	for r := rune(0x391); r <= 0x3A9; r++ { // Greek capitals (2 bytes)
		if r != 0x3A2 {
			p = append(p, r)
		}
	}
	for r := rune(0x430); r <= 0x44F; r++ { // Cyrillic (2 bytes)
		p = append(p, r)
	}
	for r := rune(0x3041); r <= 0x3060; r++ { // Hiragana (3 bytes)
		p = append(p, r)
	}
	for r := rune(0x4E00); r <= 0x4E1F; r++ { // CJK (3 bytes)
		p = append(p, r)
	}
	for r := rune(0x1D400); r <= 0x1D433; r++ { // mathematical alphanumerics (4 bytes)
		p = append(p, r)
	}
	return p
}()

const asciiLetters = "ABCDEFGHIJKLMNOPQRSTUVWXYZabcdefghijklmnopqrstuvwxyz"

func drawRenaming(t *rapid.T) map[rune]rune {
	// choose 52 increasing positions in the pool
	idx := make([]int, 0, 52)
	remaining := 52
	for i := 0; i < len(renamePool) && remaining > 0; i++ {
		left := len(renamePool) - i
		if left == remaining || rapid.IntRange(0, left-1).Draw(t, "pick") < remaining {
			idx = append(idx, i)
			remaining--
		}
	}
	sort.Ints(idx)
	m := map[rune]rune{}
	for i, r := range asciiLetters {
		m[r] = renamePool[idx[i]]
	}
	return m
}

func renameString(s string, m map[rune]rune) string {
	var b strings.Builder
	for _, r := range s {
		if x, ok := m[r]; ok {
			b.WriteRune(x)
		} else {
			b.WriteRune(r)
		}
	}
	return b.String()
}

func renameVal(v jv.Val, m map[rune]rune) jv.Val {
	switch v.K {
	case jv.Str:
		return jv.VStr(renameString(v.S, m))
	case jv.Arr:
		a := make([]jv.Val, len(v.A))
		for i, e := range v.A {
			a[i] = renameVal(e, m)
		}
		return jv.VArr(a)
	case jv.Obj:
		ms := make([]jv.Member, len(v.O))
		for i, e := range v.O {
			ms[i] = jv.Member{K: e.K, V: renameVal(e.V, m)}
		}
		return jv.VObj(ms)
	}
	return v
}

// renameExpr renames the string literals of the expression (not identifiers).
func renameExpr(e ast.Expr, m map[rune]rune) ast.Expr {
	switch e := e.(type) {
	case *ast.Binary:
		return &ast.Binary{Op: e.Op, L: renameExpr(e.L, m), R: renameExpr(e.R, m)}
	case *ast.Unary:
		return &ast.Unary{Op: e.Op, X: renameExpr(e.X, m)}
	case *ast.Chain:
		h := e.Head
		switch h.Kind {
		case ast.HRaw:
			h.Raw = renameString(h.Raw, m)
		case ast.HLiteral:
			h.Lit = renameVal(h.Lit, m)
		case ast.HParen:
			h.X = renameExpr(h.X, m)
		}
		if h.Args != nil {
			args := make([]ast.Arg, len(h.Args))
			for i, a := range h.Args {
				args[i] = ast.Arg{Ref: a.Ref, X: renameExpr(a.X, m)}
			}
			h.Args = args
		}
		return &ast.Chain{Head: h, Steps: e.Steps}
	}
	return e
}

const renameAlphabet = "abcxyzABZ019 ,-."

// C11 (metamorphic half): renaming characters consistently in expression and
// data renames the result the same way.
func TestC11_Rename(t *testing.T) {
	c := collector("C11", "rename")
	check(t, func(t *rapid.T) {
		str := func(max int) string {
			n := rapid.IntRange(0, max).Draw(t, "slen")
			b := make([]byte, n)
			for i := range b {
				b[i] = renameAlphabet[rapid.IntRange(0, len(renameAlphabet)-1).Draw(t, "ch")]
			}
			return string(b)
		}
		sub := func(s string, max int) string {
			if len(s) == 0 || rapid.IntRange(0, 5).Draw(t, "unrelated") == 0 {
				return str(2)
			}
			i := rapid.IntRange(0, len(s)-1).Draw(t, "from")
			j := rapid.IntRange(i, minInt(len(s), i+max)).Draw(t, "to")
			return s[i:j]
		}
		// keys with a common prefix and tails from the renaming alphabet (the
		// renamed keys then share a multi-byte prefix)
		prefixed := func(k int) []string {
			prefix := str(12)
			out := make([]string, k)
			for i := range out {
				out[i] = prefix + str(2)
			}
			return out
		}
		e, doc, op, _ := c11Op(t, str, sub, prefixed)
		m := drawRenaming(t)
		re := renameExpr(e, m)
		rdoc := renameVal(doc, m)
		text := ast.Render(e)
		rtext := ast.Render(re)
		c.Case()
		n1, n2 := run.FromVal(doc), run.FromVal(rdoc)
		calls := []run.Call{{API: "search", Expr: text, Doc: &n1}, {API: "search", Expr: rtext, Doc: &n2}}
		run.Watch(c, "rename", calls...)
		o1 := run.Search(text, n1.Build())
		o2 := run.Search(rtext, n2.Build())
		msg := c11RenameVerdict(o1, o2, m)
		if msg != "" {
			mm := map[string]string{}
			for k, v := range m {
				mm[string(k)] = string(v)
			}
			c.Fail(t, run.Replay{Check: "rename", Kind: "custom:c11-rename", Calls: calls, Message: msg, Extra: mustJSON(map[string]any{"renaming": mm})}, op)
			return
		}
		c.Label(op)
		if o1.IsValue() && o1.Val.K != jv.Null {
			c.NonTrivial(text+"\x00"+doc.JSON()+"\x00"+strconv.Quote(rtext), func() any {
				return map[string]any{"expr": text, "doc": doc.JSON(), "renamed_expr": rtext, "renamed_doc": rdoc.JSON(), "outcome": truncate(o1.String(), 150), "renamed_outcome": truncate(o2.String(), 200)}
			})
		}
	})
}

func c11RenameVerdict(o1, o2 run.Outcome, m map[rune]rune) string {
	if o1.Panic != "" {
		return "panic: " + o1.Panic
	}
	if o2.Panic != "" {
		return "panic on the renamed input: " + o2.Panic
	}
	if o1.Failed || o2.Failed {
		if o1.Failed != o2.Failed || o1.Cats != o2.Cats {
			return "renaming changes the failure: " + o1.String() + " vs " + o2.String()
		}
		return ""
	}
	if !allStringsValid(o2.Val) {
		return "result on the renamed (valid UTF-8) input is not valid UTF-8: " + o2.String()
	}
	want := renameVal(o1.Val, m)
	if !jv.Equal(want, o2.Val) {
		return "renamed(result) = " + want.JSON() + " but the result on the renamed input is " + o2.Val.JSON()
	}
	return ""
}

func init() {
	customReplays["custom:c11-rename"] = func(r run.Replay) string {
		var ex struct {
			Renaming map[string]string `json:"renaming"`
		}
		if err := jsonUnmarshal(r.Extra, &ex); err != nil || len(r.Calls) != 2 {
			return "malformed replay"
		}
		m := map[rune]rune{}
		for k, v := range ex.Renaming {
			m[[]rune(k)[0]] = []rune(v)[0]
		}
		return c11RenameVerdict(doCall(r.Calls[0]), doCall(r.Calls[1]), m)
	}
}

// caseRunes: letters whose case counterpart has another UTF-8 length (dotless
// i, long s, Kelvin, Angstrom, Ohm, U+023A, U+0250, capital sharp s), letters
// with title case and ligatures, next to ordinary ones.
var caseRunes = []rune{'a', 'Z', 'é', 'É', 'ß', 0x1E9E, 0x0131, 0x0130, 0x017F, 0x212A, 0x212B, 0x2126, 0x023A, 0x023E, 0x2C65, 0x2C66, 0x0250, 0x2C6F, 0x01C5, 0xFB01, 0x03A3, 0x03C2, 0x03C3, 0x1C80, 0x1FBE, 0xA78D, 0x10400, 0x10428, '日', '0', ' ', 0x0345, 0x0301}

// C11 (case): upper and lower never corrupt text. Which letters they map is
// not pinned beyond ASCII (the model says so); that the result of a valid
// UTF-8 string is valid UTF-8, that mapping twice equals mapping once, and
// that ASCII letters are mapped, is.
func TestC11_Case(t *testing.T) {
	c := collector("C11", "case")
	check(t, func(t *rapid.T) {
		n := rapid.IntRange(0, 8).Draw(t, "slen")
		rs := make([]rune, n)
		for i := range rs {
			rs[i] = gen.Pick(t, "r", caseRunes)
		}
		s := string(rs)
		fn := gen.Pick(t, "fn", []string{"upper", "lower"})
		doc := jv.VObj([]jv.Member{{K: "s", V: jv.VStr(s)}})
		var S ast.Expr = ast.F("s")
		if rapid.Bool().Draw(t, "literal") {
			S = ast.RawS(s)
		}
		once := ast.Call(fn, ast.A(S))
		twice := ast.Call(fn, ast.A(once))
		e := &ast.Chain{Head: ast.Head{Kind: ast.HMultiList, Items: []ast.Expr{once, twice, ast.Call("length", ast.A(once)), ast.Call(fn, ast.A(ast.RawS("aZ"))), ast.Call("reverse", ast.A(once))}}}
		text := ast.RenderWith(e, gen.Chooser{T: t})
		node := run.FromVal(doc)
		call := run.Call{API: "search", Expr: text, Doc: &node}
		c.Case()
		run.Watch(c, "case", call)
		msg := c11CaseVerdict(fn, run.Search(text, node.Build()))
		if msg != "" {
			c.Fail(t, run.Replay{Check: "case", Kind: "custom:c11-case", Calls: []run.Call{call}, Message: msg, Extra: mustJSON(map[string]any{"fn": fn})}, fn)
			return
		}
		c.Label(fn)
		if widths(s) >= 2 {
			c.NonTrivial(text+"\x00"+s, func() any { return map[string]any{"expr": text, "string": s} })
		}
	})
}

func c11CaseVerdict(fn string, o run.Outcome) string {
	if o.Panic != "" {
		return "library panicked: " + o.Panic
	}
	if o.Failed {
		return "unexpected error: " + o.String()
	}
	if o.Info.BadUTF8 {
		return "the result of " + fn + " on valid UTF-8 is not valid UTF-8: " + o.String()
	}
	v := o.Val
	if v.K != jv.Arr || len(v.A) != 5 || v.A[0].K != jv.Str || v.A[1].K != jv.Str || v.A[2].K != jv.Num || v.A[4].K != jv.Str {
		return "unexpected result shape: " + o.String()
	}
	if !utf8.ValidString(v.A[0].S) || !utf8.ValidString(v.A[4].S) {
		return "the result of " + fn + " on valid UTF-8 is not valid UTF-8: " + o.String()
	}
	if v.A[0].S != v.A[1].S {
		return fmt.Sprintf("%s applied twice differs from %s applied once: %q vs %q", fn, fn, v.A[1].S, v.A[0].S)
	}
	if n := int64(utf8.RuneCountInString(v.A[0].S)); !v.A[2].R.IsInt() || v.A[2].R.Num().Int64() != n {
		return fmt.Sprintf("length(%s(s)) = %s but the result has %d code points", fn, v.A[2].JSON(), n)
	}
	want := "AZ"
	if fn == "lower" {
		want = "az"
	}
	if v.A[3].S != want {
		return fmt.Sprintf("%s('aZ') = %q", fn, v.A[3].S)
	}
	rv := []rune(v.A[0].S)
	for i, j := 0, len(rv)-1; i < j; i, j = i+1, j-1 {
		rv[i], rv[j] = rv[j], rv[i]
	}
	if v.A[4].S != string(rv) {
		return fmt.Sprintf("reverse(%s(s)) = %q is not the reverse of %q", fn, v.A[4].S, v.A[0].S)
	}
	return ""
}

func init() {
	customReplays["custom:c11-case"] = func(r run.Replay) string {
		var ex struct {
			Fn string `json:"fn"`
		}
		if err := jsonUnmarshal(r.Extra, &ex); err != nil || len(r.Calls) == 0 {
			return "malformed replay"
		}
		return c11CaseVerdict(ex.Fn, doCall(r.Calls[0]))
	}
}


func init() {
	customReplays["custom:c11-valid"] = func(r run.Replay) string {
		for _, call := range r.Calls {
			o := doCall(call)
			if o.Panic != "" {
				return "library panicked: " + o.Panic
			}
			if o.IsValue() && o.Info.BadUTF8 {
				return "the result contains a string that is not valid UTF-8"
			}
		}
		return ""
	}
}
