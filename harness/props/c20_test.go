package props

import (
	"fmt"
	"strings"
	"testing"

	"pgregory.net/rapid"

	"verif/harness/ast"
	"verif/harness/gen"
	"verif/harness/jv"
	"verif/harness/model"
	"verif/harness/run"
)

func derive(t *rapid.T, v jv.Val) jv.Val {
	switch rapid.IntRange(0, 3).Draw(t, "derive") {
	case 0:
		return v
	case 1, 2:
		return gen.Respell(t, v)
	}
	return gen.NearMiss(t, v)
}

func depthOf(v jv.Val) int {
	d := 0
	switch v.K {
	case jv.Arr:
		for _, e := range v.A {
			if x := depthOf(e); x > d {
				d = x
			}
		}
		return d + 1
	case jv.Obj:
		for _, m := range v.O {
			if x := depthOf(m.V); x > d {
				d = x
			}
		}
		return d + 1
	}
	return 0
}

func hasOddSpelling(v jv.Val) bool {
	switch v.K {
	case jv.Num:
		return v.T != "" && v.T != jv.RatText(v.R)
	case jv.Arr:
		for _, e := range v.A {
			if hasOddSpelling(e) {
				return true
			}
		}
	case jv.Obj:
		for _, m := range v.O {
			if hasOddSpelling(m.V) {
				return true
			}
		}
	}
	return false
}

// C20: == is a deep, type-strict equivalence; truthiness is uniform.
func TestC20_Equality(t *testing.T) {
	c := collector("C20", "equality")
	check(t, func(t *rapid.T) {
		x := gen.Value(t, gen.DocCfg{MaxDepth: 3, MaxFan: 3}, 0)
		if rapid.IntRange(0, 3).Draw(t, "falsy") == 0 {
			x = gen.Pick(t, "falsyval", []jv.Val{jv.VNull(), jv.VBool(false), jv.VStr(""), jv.VArr(nil), jv.VObj(nil), jv.VInt(0), jv.VNumText("0.0"), jv.VNumText("-0"), jv.VStr("0"), jv.VStr(" "), jv.VArr([]jv.Val{jv.VNull()}), jv.VObj([]jv.Member{{K: "", V: jv.VNull()}})})
		}
		y := derive(t, x)
		z := derive(t, y)
		if rapid.IntRange(0, 7).Draw(t, "close") == 0 {
			// distinct numbers that differ only beyond binary64 precision or
			// range, alone or inside equal containers
			g := gen.Pick(t, "closegroup", gen.CloseNums)
			wrap := rapid.IntRange(0, 2).Draw(t, "closewrap")
			mk := func(label string) jv.Val {
				v := jv.VNumText(gen.Pick(t, label, g))
				switch wrap {
				case 1:
					return jv.VArr([]jv.Val{jv.VInt(1), v})
				case 2:
					return jv.VObj([]jv.Member{{K: "a", V: v}, {K: "b", V: jv.VStr("s")}})
				}
				return v
			}
			x, y, z = mk("cx"), mk("cy"), mk("cz")
		}
		deepNest := 0
		if rapid.IntRange(0, 999).Draw(t, "deepnest") == 0 {
			// the same three values at the bottom of a deep nest of arrays and
			// single-member objects (a comparison that changes its method below
			// some depth shows here); supplied through the document only
			deepNest = gen.Pick(t, "nestdepth", []int{200, 1000, 1001, 1100})
			kinds := make([]bool, deepNest)
			for i := range kinds {
				kinds[i] = rapid.Bool().Draw(t, "nestobj")
			}
			wrap := func(v jv.Val) jv.Val {
				for _, obj := range kinds {
					if obj {
						v = jv.VObj([]jv.Member{{K: "n", V: v}})
					} else {
						v = jv.VArr([]jv.Val{v})
					}
				}
				return v
			}
			x, y, z = wrap(x), wrap(y), wrap(z)
		}
		c.Case()
		for _, v := range []jv.Val{x, y, z} {
			if !numsAllOK(v) {
				c.Skip("number-out-of-decimal128")
				return
			}
		}
		// operands are supplied through the document or as literals
		var ms []jv.Member
		plain := func(name string, v jv.Val) ast.Expr {
			if deepNest == 0 && rapid.IntRange(0, 2).Draw(t, "aslit-"+name) == 0 {
				return ast.Lit(v)
			}
			ms = append(ms, jv.Member{K: name, V: v})
			return ast.F(name)
		}
		zero, one := ast.Lit(jv.VInt(0)), ast.Lit(jv.VInt(1))
		xComputed := false
		operand := func(name string, v jv.Val) (out ast.Expr) {
			e := plain(name, v)
			defer func() {
				if name == "x" && out != e {
					xComputed = true
				}
			}()
			// the same value, but computed: the library then holds it in its
			// internal number type, with whatever scale the operands had
			if v.K == jv.Num && model.NumOK(v.R) && rapid.IntRange(0, 3).Draw(t, "computed-"+name) == 0 {
				switch rapid.IntRange(0, 6).Draw(t, "how-"+name) {
				case 0:
					return ast.Paren(ast.Bin("+", e, zero))
				case 1:
					return ast.Paren(ast.Bin("*", e, one))
				case 2:
					return ast.Paren(&ast.Unary{Op: "-", X: ast.Paren(&ast.Unary{Op: "-", X: e})})
				case 3:
					return ast.Call("sum", ast.A(&ast.Chain{Head: ast.Head{Kind: ast.HMultiList, Items: []ast.Expr{e}}}))
				case 4:
					return ast.Call(gen.Pick(t, "ext-"+name, []string{"max", "min", "avg"}), ast.A(&ast.Chain{Head: ast.Head{Kind: ast.HMultiList, Items: []ast.Expr{e}}}))
				case 5:
					return ast.Paren(ast.Bin("-", e, ast.Lit(jv.VNumText("0.0"))))
				default:
					return ast.Paren(ast.Bin("/", e, ast.Lit(jv.VNumText("1.00"))))
				}
			}
			if v.K == jv.Arr && len(v.A) > 0 && rapid.IntRange(0, 7).Draw(t, "computedarr-"+name) == 0 {
				all := true
				for _, x := range v.A {
					if x.K != jv.Num || !model.NumOK(x.R) {
						all = false
					}
				}
				if all {
					return ast.Call("map", ast.Ref(ast.Bin("+", ast.Cur(), zero)), ast.A(e))
				}
			}
			return e
		}
		X, Y, Z := operand("x", x), operand("y", y), operand("z", z)
		if x.K == jv.Arr && rapid.IntRange(0, 5).Draw(t, "window") == 0 {
			// y (and sometimes z) is a window on the very array x denotes, so
			// that both operands share memory inside the library
			win := func(label string) (ast.Expr, jv.Val, bool) {
				k := int64(rapid.IntRange(0, len(x.A)+1).Draw(t, label+"k"))
				w := gen.Pick(t, label, []ast.Step{{Kind: ast.SListStar}, {Kind: ast.SSlice}, {Kind: ast.SSlice, Stop: ast.I64(k)}, {Kind: ast.SSlice, Start: ast.I64(k)}, {Kind: ast.SSlice, Stop: ast.I64(-1)}, {Kind: ast.SSlice, Start: ast.I64(k / 2), Stop: ast.I64(k)}})
				r := model.EvalAt(&ast.Chain{Head: ast.Head{Kind: ast.HImplicit}, Steps: []ast.Step{w}}, x, x)
				if !r.IsValue() {
					return nil, jv.Val{}, false
				}
				return ast.Paren(X.(*ast.Chain).With(w)), r.V, true
			}
			if e, v, ok := win("ywin"); ok {
				Y, y = e, v
			}
			if rapid.Bool().Draw(t, "zwindow") {
				if e, v, ok := win("zwin"); ok {
					Z, z = e, v
				}
			}
		}
		not := func(e ast.Expr) ast.Expr { return &ast.Unary{Op: "!", X: ast.Paren(e)} }
		T, F := ast.RawS("T"), ast.RawS("F")
		keys := []string{"refl", "xy", "yx", "ne", "yz", "xz", "cont", "nx", "and", "or", "filt", "nn", "cond", "nnlt", "nnge", "nlt", "nneq", "nncont", "ltor", "ltand"}
		items := []ast.Expr{
			ast.Bin("==", X, X), ast.Bin("==", X, Y), ast.Bin("==", Y, X), ast.Bin("!=", X, Y), ast.Bin("==", Y, Z), ast.Bin("==", X, Z),
			ast.Call("contains", ast.A(&ast.Chain{Head: ast.Head{Kind: ast.HMultiList, Items: []ast.Expr{Z, Y}}}), ast.A(X)),
			not(X), ast.Bin("&&", X, T), ast.Bin("||", X, F),
			(&ast.Chain{Head: ast.Head{Kind: ast.HMultiList, Items: []ast.Expr{X}}}).With(ast.Step{Kind: ast.SFilter, Cond: ast.Cur()}),
			not(not(X)),
			ast.Bin("||", ast.Bin("&&", X, T), F),
			// truthiness of the results of comparisons (an ordering comparison
			// of non-numbers is null, not false): !! of anything is a boolean
			not(not(ast.Bin("<", X, Y))), not(not(ast.Bin(">=", Y, X))), not(ast.Bin("<", X, Y)), not(not(ast.Bin("==", X, Y))),
			not(not(ast.Call("contains", ast.A(&ast.Chain{Head: ast.Head{Kind: ast.HMultiList, Items: []ast.Expr{Z, Y}}}), ast.A(X)))),
			ast.Bin("||", ast.Paren(ast.Bin("<", X, Y)), F), ast.Bin("&&", ast.Paren(ast.Bin("<=", X, Y)), T),
		}
		e := &ast.Chain{Head: ast.Head{Kind: ast.HMultiHash, Keys: keys, Items: items}}
		doc := jv.VObj(ms)
		text := ast.Render(e)
		if rapid.IntRange(0, 2).Draw(t, "spelled") == 0 {
			text = ast.RenderWith(e, gen.Chooser{T: t}) // (a draw per token: a third of the cases)
		}
		node := run.FromVal(doc)
		call := run.Call{API: "search", Expr: text, Doc: &node}
		run.Watch(c, "equality", call)
		out := run.Search(text, node.Build())
		msg := c20Verdict(x, y, z, out, xComputed)
		if msg != "" {
			c.Fail(t, run.Replay{Check: "equality", Kind: "custom:c20", Calls: []run.Call{call}, Message: msg,
				Extra: mustJSON(map[string]any{"x": run.EncVal{V: x}, "y": run.EncVal{V: y}, "z": run.EncVal{V: z}, "x_computed": xComputed})}, msg[:minInt(len(msg), 25)])
			return
		}
		if jv.Equal(x, y) {
			c.Label("x==y")
		} else {
			c.Label("x!=y")
		}
		if x.Truthy() {
			c.Label("truthy")
		} else {
			c.Label("falsy")
		}
		if depthOf(x) >= 2 || hasOddSpelling(x) || hasOddSpelling(y) {
			c.NonTrivial(x.JSON()+"\x00"+y.JSON()+"\x00"+z.JSON(), func() any {
				return map[string]any{"x": x.JSON(), "y": y.JSON(), "z": z.JSON(), "x==y": jv.Equal(x, y)}
			})
		}
	})
}

func minInt(a, b int) int {
	if a < b {
		return a
	}
	return b
}

func numsAllOK(v jv.Val) bool {
	switch v.K {
	case jv.Num:
		// at most 34 significant digits and an exponent inside the
		// decimal128 range (section 3.4: the package's number model)
		return model.NumOK(v.R)
	case jv.Arr:
		for _, e := range v.A {
			if !numsAllOK(e) {
				return false
			}
		}
	case jv.Obj:
		for _, m := range v.O {
			if !numsAllOK(m.V) {
				return false
			}
		}
	}
	return true
}

func c20Verdict(x, y, z jv.Val, out run.Outcome, xComputed bool) string {
	if out.Panic != "" {
		return "library panicked: " + out.Panic
	}
	if out.Failed {
		return "unexpected error: " + out.String()
	}
	get := func(k string) jv.Val { v, _ := out.Val.Get(k); return v }
	b := func(k string) (bool, string) {
		v := get(k)
		if v.K != jv.Bool {
			return false, fmt.Sprintf("%s is not a boolean: %s", k, v.JSON())
		}
		return v.B, ""
	}
	want := map[string]bool{"refl": true, "xy": jv.Equal(x, y), "yx": jv.Equal(y, x), "ne": !jv.Equal(x, y), "yz": jv.Equal(y, z), "xz": jv.Equal(x, z),
		"cont": jv.Equal(x, y) || jv.Equal(x, z), "nx": !x.Truthy(), "nn": x.Truthy()}
	for _, k := range []string{"refl", "xy", "yx", "ne", "yz", "xz", "cont", "nx", "nn"} {
		got, msg := b(k)
		if msg != "" {
			return msg
		}
		if got != want[k] {
			return fmt.Sprintf("%s: got %v, want %v (x=%s y=%s z=%s)", describeKey(k), got, want[k], x.JSON(), y.JSON(), z.JSON())
		}
	}
	// comparisons as operands: the model gives the value of the comparison
	// (null for an ordering comparison of non-numbers), the one truthiness
	// rule gives the rest
	cmpVal := func(op string, a, b jv.Val) (jv.Val, bool) {
		r := model.EvalAt(ast.Bin(op, ast.Lit(a), ast.Lit(b)), jv.VNull(), jv.VNull())
		return r.V, r.IsValue()
	}
	if lt, ok := cmpVal("<", x, y); ok {
		for k, wantB := range map[string]bool{"nnlt": lt.Truthy(), "nlt": !lt.Truthy()} {
			if got, msg := b(k); msg != "" || got != wantB {
				return fmt.Sprintf("%s of (x < y): got %s, want %v (x=%s y=%s; x < y is %s)", map[string]string{"nnlt": "!!", "nlt": "!"}[k], get(k).JSON(), wantB, x.JSON(), y.JSON(), lt.JSON())
			}
		}
		wantOr := jv.VStr("F")
		if lt.Truthy() {
			wantOr = lt
		}
		if !jv.StrictEqual(get("ltor"), wantOr) {
			return fmt.Sprintf("(x < y) || 'F': got %s, want %s (x=%s y=%s)", get("ltor").JSON(), wantOr.JSON(), x.JSON(), y.JSON())
		}
	}
	if ge, ok := cmpVal(">=", y, x); ok {
		if got, msg := b("nnge"); msg != "" || got != ge.Truthy() {
			return fmt.Sprintf("!!(y >= x): got %s, want %v (x=%s y=%s)", get("nnge").JSON(), ge.Truthy(), x.JSON(), y.JSON())
		}
	}
	if le, ok := cmpVal("<=", x, y); ok {
		wantAnd := le
		if le.Truthy() {
			wantAnd = jv.VStr("T")
		}
		if !jv.StrictEqual(get("ltand"), wantAnd) {
			return fmt.Sprintf("(x <= y) && 'T': got %s, want %s (x=%s y=%s)", get("ltand").JSON(), wantAnd.JSON(), x.JSON(), y.JSON())
		}
	}
	if got, msg := b("nneq"); msg != "" || got != jv.Equal(x, y) {
		return fmt.Sprintf("!!(x == y): got %s, want %v (x=%s y=%s)", get("nneq").JSON(), jv.Equal(x, y), x.JSON(), y.JSON())
	}
	if got, msg := b("nncont"); msg != "" || got != (jv.Equal(x, y) || jv.Equal(x, z)) {
		return fmt.Sprintf("!!contains([z, y], x): got %s (x=%s y=%s z=%s)", get("nncont").JSON(), x.JSON(), y.JSON(), z.JSON())
	}
	// && and || return one of their operands unchanged (incl. spelling)
	// (a computed operand is a new number; only its value is pinned)
	same := func(a, b jv.Val) bool { return jv.StrictEqual(a, b) && (xComputed || a.JSON() == b.JSON()) }
	if x.Truthy() {
		if !same(get("and"), jv.VStr("T")) || !same(get("or"), x) || !same(get("cond"), jv.VStr("T")) {
			return fmt.Sprintf("x is true-like (%s) but x&&'T' = %s, x||'F' = %s, x&&'T'||'F' = %s", x.JSON(), get("and").JSON(), get("or").JSON(), get("cond").JSON())
		}
		if !same(get("filt"), jv.VArr([]jv.Val{x})) {
			return fmt.Sprintf("x is true-like (%s) but [x][?@] = %s", x.JSON(), get("filt").JSON())
		}
	} else {
		if !same(get("and"), x) || !same(get("or"), jv.VStr("F")) || !same(get("cond"), jv.VStr("F")) {
			return fmt.Sprintf("x is false-like (%s) but x&&'T' = %s, x||'F' = %s, x&&'T'||'F' = %s", x.JSON(), get("and").JSON(), get("or").JSON(), get("cond").JSON())
		}
		if !same(get("filt"), jv.VArr([]jv.Val{})) {
			return fmt.Sprintf("x is false-like (%s) but [x][?@] = %s", x.JSON(), get("filt").JSON())
		}
	}
	return ""
}

func describeKey(k string) string {
	return map[string]string{"refl": "x == x", "xy": "x == y", "yx": "y == x", "ne": "x != y", "yz": "y == z", "xz": "x == z", "cont": "contains([z, y], x)", "nx": "!x", "nn": "!!x"}[k]
}

func init() {
	customReplays["custom:c20"] = func(r run.Replay) string {
		var ex struct {
			X, Y, Z   run.EncVal
			XComputed bool `json:"x_computed"`
		}
		if err := jsonUnmarshal(r.Extra, &ex); err != nil || len(r.Calls) == 0 {
			return "malformed replay"
		}
		return c20Verdict(ex.X.V, ex.Y.V, ex.Z.V, doCall(r.Calls[0]), ex.XComputed)
	}
}

// ---------------------------------------------------------------------------
// Filters: one truthiness rule, one equality, whatever the shape of the
// predicate and whatever the elements are.

var c20Elems = []string{`null`, `false`, `true`, `0`, `1`, `""`, `"s"`, `"a"`, `[]`, `[0]`, `[1,2]`, `{}`, `{"a":null}`, `{"a":false}`, `{"a":true}`, `{"a":0}`, `{"a":1}`, `{"a":1.0,"b":"1"}`, `{"a":""}`, `{"a":"s"}`,
	`{"a":[]}`, `{"a":{}}`, `{"a":[1],"b":[1]}`, `{"b":2}`, `{"a":1,"b":1}`, `{"a":{"b":1}}`, `{"a":{"b":null},"b":null}`, `{"b":false}`}

var c20Operands = []string{"a", "b", "@", "@.a", "a.b", "`null`", "`true`", "`false`", "`0`", "`1`", "`1.0`", "'s'", "''", "`[]`", "`{}`", "`[1]`", "`\"s\"`", "type(@)", "'object'", "'null'", "`{\"b\":1}`", "[a]", "{b: b}", "not_null(a, b)"}

// c20Pred draws a predicate text and texts that must select the same elements.
func c20Pred(t *rapid.T, depth int) (string, []string) {
	operand := func(label string) string { return gen.Pick(t, label, c20Operands) }
	switch k := rapid.IntRange(0, 9).Draw(t, "predkind"); {
	case k <= 4:
		l, r := operand("l"), operand("r")
		op := gen.Pick(t, "op", []string{"==", "==", "!=", "!=", "<", "<=", ">", ">="})
		p := l + " " + op + " " + r
		var eq []string
		switch op {
		case "==":
			eq = []string{r + " == " + l, "!(" + l + " != " + r + ")", r + "==" + l}
		case "!=":
			eq = []string{r + " != " + l, "!(" + l + " == " + r + ")"}
		case "<":
			eq = []string{r + " > " + l}
		case "<=":
			eq = []string{r + " >= " + l}
		case ">":
			eq = []string{r + " < " + l}
		default:
			eq = []string{r + " <= " + l}
		}
		return p, eq
	case k == 5:
		o := operand("alone")
		return o, []string{"!(!(" + o + "))", o + " && " + o, o + " || " + o}
	case k == 6:
		o := operand("negated")
		return "!" + o, []string{"!(" + o + ")", "!(!(!" + o + "))", o + " == `false` || " + o + " == `null` || " + o + " == '' || " + o + " == `[]` || " + o + " == `{}`"}
	case depth < 2:
		p1, _ := c20Pred(t, depth+1)
		p2, _ := c20Pred(t, depth+1)
		if rapid.Bool().Draw(t, "conj") {
			return "(" + p1 + ") && (" + p2 + ")", []string{"(" + p2 + ") && (" + p1 + ")", "!(!(" + p1 + ") || !(" + p2 + "))"}
		}
		return "(" + p1 + ") || (" + p2 + ")", []string{"(" + p2 + ") || (" + p1 + ")", "!(!(" + p1 + ") && !(" + p2 + "))"}
	}
	o := operand("deep")
	return o, []string{"!(!(" + o + "))"}
}

func c20FiltersVerdict(want map[string]jv.Val, out run.Outcome) string {
	if out.Panic != "" {
		return "library panicked: " + out.Panic
	}
	if out.Failed {
		return "unexpected error: " + out.String()
	}
	for _, k := range []string{"", "f", "g", "h", "m", "n", "s", "i", "r"} {
		w, ok := want[k]
		if !ok {
			continue
		}
		got := out.Val
		if k != "" {
			got, _ = out.Val.Get(k)
		}
		if !jv.Equal(got, w) {
			return fmt.Sprintf("%s: got %s, want %s", map[string]string{"": "the filter", "f": "x[?p]", "g": "x[?q]", "h": "x | [?p]", "m": "map(&p, x)", "n": "length(x[?p])", "s": "x[?p].[@]", "i": "x[?p] | [0]", "r": "(x)[? p ]"}[k], got.JSON(), w.JSON())
		}
	}
	return ""
}

func init() {
	customReplays["custom:c20-filters"] = func(r run.Replay) string {
		var ex struct {
			Want map[string]run.EncVal `json:"want"`
		}
		if err := jsonUnmarshal(r.Extra, &ex); err != nil || len(r.Calls) == 0 {
			return "malformed replay"
		}
		want := map[string]jv.Val{}
		for k, v := range ex.Want {
			want[k] = v.V
		}
		return c20FiltersVerdict(want, doCall(r.Calls[0]))
	}
}

// C20: filter predicates use the one truthiness rule and the one equality:
// arr[?p] keeps exactly the elements for which p is true-like, whatever the
// shape of p, the kinds of the elements, or the spelling of the filter.
func TestC20_Filters(t *testing.T) {
	c := collector("C20", "filters")
	check(t, func(t *rapid.T) {
		n := rapid.IntRange(0, 6).Draw(t, "len")
		arr := make([]jv.Val, n)
		for i := range arr {
			arr[i] = jv.MustParseJSON(gen.Pick(t, "elem", c20Elems))
		}
		p, equivalents := c20Pred(t, 0)
		q := gen.Pick(t, "equivalent", equivalents)
		c.Case()
		pp, pq := ast.Parse(p), ast.Parse(q)
		if pp.Verdict != ast.In || pq.Verdict != ast.In {
			if pp.Verdict == ast.Out || pq.Verdict == ast.Out {
				t.Fatalf("HARNESS-BUG: predicate %q / %q does not parse: %s %s", p, q, pp.Reason, pq.Reason)
			}
			c.Skip("reference-parser-undetermined")
			return
		}
		X := "x"
		doc := jv.VObj([]jv.Member{{K: "x", V: jv.VArr(arr)}, {K: "a", V: jv.VInt(1)}})
		if rapid.IntRange(0, 3).Draw(t, "literalarray") == 0 {
			X = "`" + strings.ReplaceAll(jv.VArr(arr).JSON(), "`", "\\`") + "`"
		}
		// the value of the predicate for each element, by the reference
		// interpreter; the truthiness rule decides what is kept
		var kept, vals, wrapped []jv.Val
		for _, e := range arr {
			r := model.EvalAt(pp.Expr, e, doc)
			if r.Undet != "" {
				c.Skip(r.Undet)
				return
			}
			if !r.IsValue() {
				c.Skip("predicate-fails-on-an-element")
				return
			}
			r2 := model.EvalAt(pq.Expr, e, doc)
			if r2.Undet != "" {
				c.Skip(r2.Undet)
				return
			}
			if !r2.IsValue() || r2.V.Truthy() != r.V.Truthy() {
				t.Fatalf("HARNESS-BUG: %q and %q are not equivalent on %s", p, q, e.JSON())
			}
			vals = append(vals, r.V)
			// (a filter is a projection: a null element never appears in its
			// result, whatever the predicate says - section 3.3)
			if r.V.Truthy() && e.K != jv.Null {
				kept = append(kept, e)
				wrapped = append(wrapped, jv.VArr([]jv.Val{e}))
			}
		}
		first := jv.VNull()
		if len(kept) > 0 {
			first = kept[0]
		}
		want := map[string]jv.Val{"f": jv.VArr(kept), "g": jv.VArr(kept), "h": jv.VArr(kept), "m": jv.VArr(vals), "n": jv.VInt(int64(len(kept))), "s": jv.VArr(wrapped), "i": first, "r": jv.VArr(kept)}
		text := "{f: " + X + "[?" + p + "], g: " + X + "[?" + q + "], h: " + X + " | [?" + p + "], m: map(&(" + p + "), " + X + "), n: length(" + X + "[?" + p + "]), s: " + X + "[?" + p + "].[@], i: " + X + "[?" + p + "] | [0], r: (" + X + ")[? " + p + " ]}"
		if rapid.IntRange(0, 3).Draw(t, "single") == 0 {
			// the filter alone, as the whole expression
			k := gen.Pick(t, "which", []string{"f", "g", "h", "r"})
			text = map[string]string{"f": X + "[?" + p + "]", "g": X + "[?" + q + "]", "h": X + " | [?" + p + "]", "r": X + "[*] | [?" + p + "]"}[k]
			want = map[string]jv.Val{"": jv.VArr(kept)}
		}
		node := run.FromVal(doc)
		call := run.Call{API: "search", Expr: text, Doc: &node}
		run.Watch(c, "filters", call)
		out := run.Search(text, node.Build())
		msg := c20FiltersVerdict(want, out)
		if msg != "" {
			msg += fmt.Sprintf(" (predicate %s, equivalent %s, array %s)", p, q, jv.VArr(arr).JSON())
			enc := map[string]run.EncVal{}
			for k, v := range want {
				enc[k] = run.EncVal{V: v}
			}
			c.Fail(t, run.Replay{Check: "filters", Kind: "custom:c20-filters", Calls: []run.Call{call}, Message: msg, Extra: mustJSON(map[string]any{"want": enc})}, msg[:minInt(len(msg), 12)])
			return
		}
		kinds := map[jv.Kind]bool{}
		for _, e := range arr {
			kinds[e.K] = true
		}
		c.Label(fmt.Sprintf("kept-%d-of-%d", minInt(len(kept), 3), minInt(n, 3)))
		if len(kinds) >= 2 && len(kept) > 0 && len(kept) < n {
			c.NonTrivial(p+"\x00"+jv.VArr(arr).JSON(), func() any {
				return map[string]any{"predicate": p, "equivalent": q, "array": jv.VArr(arr).JSON(), "kept": jv.VArr(kept).JSON()}
			})
		}
	})
}
