package props

import (
	"fmt"
	"testing"

	"pgregory.net/rapid"

	"verif/harness/ast"
	"verif/harness/gen"
	"verif/harness/jv"
	"verif/harness/model"
	"verif/harness/run"
)

func derive(t *rapid.T, v jv.Val) jv.Val {
	switch rapid.IntRange(0, 3).Draw(t, "derive") {
	case 0:
		return v
	case 1, 2:
		return gen.Respell(t, v)
	}
	return gen.NearMiss(t, v)
}

func depthOf(v jv.Val) int {
	d := 0
	switch v.K {
	case jv.Arr:
		for _, e := range v.A {
			if x := depthOf(e); x > d {
				d = x
			}
		}
		return d + 1
	case jv.Obj:
		for _, m := range v.O {
			if x := depthOf(m.V); x > d {
				d = x
			}
		}
		return d + 1
	}
	return 0
}

func hasOddSpelling(v jv.Val) bool {
	switch v.K {
	case jv.Num:
		return v.T != "" && v.T != jv.RatText(v.R)
	case jv.Arr:
		for _, e := range v.A {
			if hasOddSpelling(e) {
				return true
			}
		}
	case jv.Obj:
		for _, m := range v.O {
			if hasOddSpelling(m.V) {
				return true
			}
		}
	}
	return false
}

// C20: == is a deep, type-strict equivalence; truthiness is uniform.
func TestC20_Equality(t *testing.T) {
	c := collector("C20", "equality")
	check(t, func(t *rapid.T) {
		x := gen.Value(t, gen.DocCfg{MaxDepth: 3, MaxFan: 3}, 0)
		if rapid.IntRange(0, 3).Draw(t, "falsy") == 0 {
			x = gen.Pick(t, "falsyval", []jv.Val{jv.VNull(), jv.VBool(false), jv.VStr(""), jv.VArr(nil), jv.VObj(nil), jv.VInt(0), jv.VNumText("0.0"), jv.VNumText("-0"), jv.VStr("0"), jv.VStr(" "), jv.VArr([]jv.Val{jv.VNull()}), jv.VObj([]jv.Member{{K: "", V: jv.VNull()}})})
		}
		y := derive(t, x)
		z := derive(t, y)
		if rapid.IntRange(0, 7).Draw(t, "close") == 0 {
			// distinct numbers that differ only beyond binary64 precision or
			// range, alone or inside equal containers
			g := gen.Pick(t, "closegroup", gen.CloseNums)
			wrap := rapid.IntRange(0, 2).Draw(t, "closewrap")
			mk := func(label string) jv.Val {
				v := jv.VNumText(gen.Pick(t, label, g))
				switch wrap {
				case 1:
					return jv.VArr([]jv.Val{jv.VInt(1), v})
				case 2:
					return jv.VObj([]jv.Member{{K: "a", V: v}, {K: "b", V: jv.VStr("s")}})
				}
				return v
			}
			x, y, z = mk("cx"), mk("cy"), mk("cz")
		}
		deepNest := 0
		if rapid.IntRange(0, 999).Draw(t, "deepnest") == 0 {
			// the same three values at the bottom of a deep nest of arrays and
			// single-member objects (a comparison that changes its method below
			// some depth shows here); supplied through the document only
			deepNest = gen.Pick(t, "nestdepth", []int{200, 1000, 1001, 1100})
			kinds := make([]bool, deepNest)
			for i := range kinds {
				kinds[i] = rapid.Bool().Draw(t, "nestobj")
			}
			wrap := func(v jv.Val) jv.Val {
				for _, obj := range kinds {
					if obj {
						v = jv.VObj([]jv.Member{{K: "n", V: v}})
					} else {
						v = jv.VArr([]jv.Val{v})
					}
				}
				return v
			}
			x, y, z = wrap(x), wrap(y), wrap(z)
		}
		c.Case()
		for _, v := range []jv.Val{x, y, z} {
			if !numsAllOK(v) {
				c.Skip("number-out-of-decimal128")
				return
			}
		}
		// operands are supplied through the document or as literals
		var ms []jv.Member
		plain := func(name string, v jv.Val) ast.Expr {
			if deepNest == 0 && rapid.IntRange(0, 2).Draw(t, "aslit-"+name) == 0 {
				return ast.Lit(v)
			}
			ms = append(ms, jv.Member{K: name, V: v})
			return ast.F(name)
		}
		zero, one := ast.Lit(jv.VInt(0)), ast.Lit(jv.VInt(1))
		xComputed := false
		operand := func(name string, v jv.Val) (out ast.Expr) {
			e := plain(name, v)
			defer func() {
				if name == "x" && out != e {
					xComputed = true
				}
			}()
			// the same value, but computed: the library then holds it in its
			// internal number type, with whatever scale the operands had
			if v.K == jv.Num && model.NumOK(v.R) && rapid.IntRange(0, 3).Draw(t, "computed-"+name) == 0 {
				switch rapid.IntRange(0, 6).Draw(t, "how-"+name) {
				case 0:
					return ast.Paren(ast.Bin("+", e, zero))
				case 1:
					return ast.Paren(ast.Bin("*", e, one))
				case 2:
					return ast.Paren(&ast.Unary{Op: "-", X: ast.Paren(&ast.Unary{Op: "-", X: e})})
				case 3:
					return ast.Call("sum", ast.A(&ast.Chain{Head: ast.Head{Kind: ast.HMultiList, Items: []ast.Expr{e}}}))
				case 4:
					return ast.Call(gen.Pick(t, "ext-"+name, []string{"max", "min", "avg"}), ast.A(&ast.Chain{Head: ast.Head{Kind: ast.HMultiList, Items: []ast.Expr{e}}}))
				case 5:
					return ast.Paren(ast.Bin("-", e, ast.Lit(jv.VNumText("0.0"))))
				default:
					return ast.Paren(ast.Bin("/", e, ast.Lit(jv.VNumText("1.00"))))
				}
			}
			if v.K == jv.Arr && len(v.A) > 0 && rapid.IntRange(0, 7).Draw(t, "computedarr-"+name) == 0 {
				all := true
				for _, x := range v.A {
					if x.K != jv.Num || !model.NumOK(x.R) {
						all = false
					}
				}
				if all {
					return ast.Call("map", ast.Ref(ast.Bin("+", ast.Cur(), zero)), ast.A(e))
				}
			}
			return e
		}
		X, Y, Z := operand("x", x), operand("y", y), operand("z", z)
		if x.K == jv.Arr && rapid.IntRange(0, 5).Draw(t, "window") == 0 {
			// y (and sometimes z) is a window on the very array x denotes, so
			// that both operands share memory inside the library
			win := func(label string) (ast.Expr, jv.Val, bool) {
				k := int64(rapid.IntRange(0, len(x.A)+1).Draw(t, label+"k"))
				w := gen.Pick(t, label, []ast.Step{{Kind: ast.SListStar}, {Kind: ast.SSlice}, {Kind: ast.SSlice, Stop: ast.I64(k)}, {Kind: ast.SSlice, Start: ast.I64(k)}, {Kind: ast.SSlice, Stop: ast.I64(-1)}, {Kind: ast.SSlice, Start: ast.I64(k / 2), Stop: ast.I64(k)}})
				r := model.EvalAt(&ast.Chain{Head: ast.Head{Kind: ast.HImplicit}, Steps: []ast.Step{w}}, x, x)
				if !r.IsValue() {
					return nil, jv.Val{}, false
				}
				return ast.Paren(X.(*ast.Chain).With(w)), r.V, true
			}
			if e, v, ok := win("ywin"); ok {
				Y, y = e, v
			}
			if rapid.Bool().Draw(t, "zwindow") {
				if e, v, ok := win("zwin"); ok {
					Z, z = e, v
				}
			}
		}
		not := func(e ast.Expr) ast.Expr { return &ast.Unary{Op: "!", X: ast.Paren(e)} }
		T, F := ast.RawS("T"), ast.RawS("F")
		keys := []string{"refl", "xy", "yx", "ne", "yz", "xz", "cont", "nx", "and", "or", "filt", "nn", "cond", "nnlt", "nnge", "nlt", "nneq", "nncont", "ltor", "ltand"}
		items := []ast.Expr{
			ast.Bin("==", X, X), ast.Bin("==", X, Y), ast.Bin("==", Y, X), ast.Bin("!=", X, Y), ast.Bin("==", Y, Z), ast.Bin("==", X, Z),
			ast.Call("contains", ast.A(&ast.Chain{Head: ast.Head{Kind: ast.HMultiList, Items: []ast.Expr{Z, Y}}}), ast.A(X)),
			not(X), ast.Bin("&&", X, T), ast.Bin("||", X, F),
			(&ast.Chain{Head: ast.Head{Kind: ast.HMultiList, Items: []ast.Expr{X}}}).With(ast.Step{Kind: ast.SFilter, Cond: ast.Cur()}),
			not(not(X)),
			ast.Bin("||", ast.Bin("&&", X, T), F),
			// truthiness of the results of comparisons (an ordering comparison
			// of non-numbers is null, not false): !! of anything is a boolean
			not(not(ast.Bin("<", X, Y))), not(not(ast.Bin(">=", Y, X))), not(ast.Bin("<", X, Y)), not(not(ast.Bin("==", X, Y))),
			not(not(ast.Call("contains", ast.A(&ast.Chain{Head: ast.Head{Kind: ast.HMultiList, Items: []ast.Expr{Z, Y}}}), ast.A(X)))),
			ast.Bin("||", ast.Paren(ast.Bin("<", X, Y)), F), ast.Bin("&&", ast.Paren(ast.Bin("<=", X, Y)), T),
		}
		e := &ast.Chain{Head: ast.Head{Kind: ast.HMultiHash, Keys: keys, Items: items}}
		doc := jv.VObj(ms)
		text := ast.Render(e)
		if rapid.IntRange(0, 2).Draw(t, "spelled") == 0 {
			text = ast.RenderWith(e, gen.Chooser{T: t}) // (a draw per token: a third of the cases)
		}
		node := run.FromVal(doc)
		call := run.Call{API: "search", Expr: text, Doc: &node}
		run.Watch(c, "equality", call)
		out := run.Search(text, node.Build())
		msg := c20Verdict(x, y, z, out, xComputed)
		if msg != "" {
			c.Fail(t, run.Replay{Check: "equality", Kind: "custom:c20", Calls: []run.Call{call}, Message: msg,
				Extra: mustJSON(map[string]any{"x": run.EncVal{V: x}, "y": run.EncVal{V: y}, "z": run.EncVal{V: z}, "x_computed": xComputed})}, msg[:minInt(len(msg), 25)])
			return
		}
		if jv.Equal(x, y) {
			c.Label("x==y")
		} else {
			c.Label("x!=y")
		}
		if x.Truthy() {
			c.Label("truthy")
		} else {
			c.Label("falsy")
		}
		if depthOf(x) >= 2 || hasOddSpelling(x) || hasOddSpelling(y) {
			c.NonTrivial(x.JSON()+"\x00"+y.JSON()+"\x00"+z.JSON(), func() any {
				return map[string]any{"x": x.JSON(), "y": y.JSON(), "z": z.JSON(), "x==y": jv.Equal(x, y)}
			})
		}
	})
}

func minInt(a, b int) int {
	if a < b {
		return a
	}
	return b
}

func numsAllOK(v jv.Val) bool {
	switch v.K {
	case jv.Num:
		// at most 34 significant digits and an exponent inside the
		// decimal128 range (section 3.4: the package's number model)
		return model.NumOK(v.R)
	case jv.Arr:
		for _, e := range v.A {
			if !numsAllOK(e) {
				return false
			}
		}
	case jv.Obj:
		for _, m := range v.O {
			if !numsAllOK(m.V) {
				return false
			}
		}
	}
	return true
}

func c20Verdict(x, y, z jv.Val, out run.Outcome, xComputed bool) string {
	if out.Panic != "" {
		return "library panicked: " + out.Panic
	}
	if out.Failed {
		return "unexpected error: " + out.String()
	}
	get := func(k string) jv.Val { v, _ := out.Val.Get(k); return v }
	b := func(k string) (bool, string) {
		v := get(k)
		if v.K != jv.Bool {
			return false, fmt.Sprintf("%s is not a boolean: %s", k, v.JSON())
		}
		return v.B, ""
	}
	want := map[string]bool{"refl": true, "xy": jv.Equal(x, y), "yx": jv.Equal(y, x), "ne": !jv.Equal(x, y), "yz": jv.Equal(y, z), "xz": jv.Equal(x, z),
		"cont": jv.Equal(x, y) || jv.Equal(x, z), "nx": !x.Truthy(), "nn": x.Truthy()}
	for _, k := range []string{"refl", "xy", "yx", "ne", "yz", "xz", "cont", "nx", "nn"} {
		got, msg := b(k)
		if msg != "" {
			return msg
		}
		if got != want[k] {
			return fmt.Sprintf("%s: got %v, want %v (x=%s y=%s z=%s)", describeKey(k), got, want[k], x.JSON(), y.JSON(), z.JSON())
		}
	}
	// comparisons as operands: the model gives the value of the comparison
	// (null for an ordering comparison of non-numbers), the one truthiness
	// rule gives the rest
	cmpVal := func(op string, a, b jv.Val) (jv.Val, bool) {
		r := model.EvalAt(ast.Bin(op, ast.Lit(a), ast.Lit(b)), jv.VNull(), jv.VNull())
		return r.V, r.IsValue()
	}
	if lt, ok := cmpVal("<", x, y); ok {
		for k, wantB := range map[string]bool{"nnlt": lt.Truthy(), "nlt": !lt.Truthy()} {
			if got, msg := b(k); msg != "" || got != wantB {
				return fmt.Sprintf("%s of (x < y): got %s, want %v (x=%s y=%s; x < y is %s)", map[string]string{"nnlt": "!!", "nlt": "!"}[k], get(k).JSON(), wantB, x.JSON(), y.JSON(), lt.JSON())
			}
		}
		wantOr := jv.VStr("F")
		if lt.Truthy() {
			wantOr = lt
		}
		if !jv.StrictEqual(get("ltor"), wantOr) {
			return fmt.Sprintf("(x < y) || 'F': got %s, want %s (x=%s y=%s)", get("ltor").JSON(), wantOr.JSON(), x.JSON(), y.JSON())
		}
	}
	if ge, ok := cmpVal(">=", y, x); ok {
		if got, msg := b("nnge"); msg != "" || got != ge.Truthy() {
			return fmt.Sprintf("!!(y >= x): got %s, want %v (x=%s y=%s)", get("nnge").JSON(), ge.Truthy(), x.JSON(), y.JSON())
		}
	}
	if le, ok := cmpVal("<=", x, y); ok {
		wantAnd := le
		if le.Truthy() {
			wantAnd = jv.VStr("T")
		}
		if !jv.StrictEqual(get("ltand"), wantAnd) {
			return fmt.Sprintf("(x <= y) && 'T': got %s, want %s (x=%s y=%s)", get("ltand").JSON(), wantAnd.JSON(), x.JSON(), y.JSON())
		}
	}
	if got, msg := b("nneq"); msg != "" || got != jv.Equal(x, y) {
		return fmt.Sprintf("!!(x == y): got %s, want %v (x=%s y=%s)", get("nneq").JSON(), jv.Equal(x, y), x.JSON(), y.JSON())
	}
	if got, msg := b("nncont"); msg != "" || got != (jv.Equal(x, y) || jv.Equal(x, z)) {
		return fmt.Sprintf("!!contains([z, y], x): got %s (x=%s y=%s z=%s)", get("nncont").JSON(), x.JSON(), y.JSON(), z.JSON())
	}
	// && and || return one of their operands unchanged (incl. spelling)
	// (a computed operand is a new number; only its value is pinned)
	same := func(a, b jv.Val) bool { return jv.StrictEqual(a, b) && (xComputed || a.JSON() == b.JSON()) }
	if x.Truthy() {
		if !same(get("and"), jv.VStr("T")) || !same(get("or"), x) || !same(get("cond"), jv.VStr("T")) {
			return fmt.Sprintf("x is true-like (%s) but x&&'T' = %s, x||'F' = %s, x&&'T'||'F' = %s", x.JSON(), get("and").JSON(), get("or").JSON(), get("cond").JSON())
		}
		if !same(get("filt"), jv.VArr([]jv.Val{x})) {
			return fmt.Sprintf("x is true-like (%s) but [x][?@] = %s", x.JSON(), get("filt").JSON())
		}
	} else {
		if !same(get("and"), x) || !same(get("or"), jv.VStr("F")) || !same(get("cond"), jv.VStr("F")) {
			return fmt.Sprintf("x is false-like (%s) but x&&'T' = %s, x||'F' = %s, x&&'T'||'F' = %s", x.JSON(), get("and").JSON(), get("or").JSON(), get("cond").JSON())
		}
		if !same(get("filt"), jv.VArr([]jv.Val{})) {
			return fmt.Sprintf("x is false-like (%s) but [x][?@] = %s", x.JSON(), get("filt").JSON())
		}
	}
	return ""
}

func describeKey(k string) string {
	return map[string]string{"refl": "x == x", "xy": "x == y", "yx": "y == x", "ne": "x != y", "yz": "y == z", "xz": "x == z", "cont": "contains([z, y], x)", "nx": "!x", "nn": "!!x"}[k]
}

func init() {
	customReplays["custom:c20"] = func(r run.Replay) string {
		var ex struct {
			X, Y, Z   run.EncVal
			XComputed bool `json:"x_computed"`
		}
		if err := jsonUnmarshal(r.Extra, &ex); err != nil || len(r.Calls) == 0 {
			return "malformed replay"
		}
		return c20Verdict(ex.X.V, ex.Y.V, ex.Z.V, doCall(r.Calls[0]), ex.XComputed)
	}
}
