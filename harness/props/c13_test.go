package props

import (
	"fmt"
	"sort"
	"strings"
	"testing"

	"pgregory.net/rapid"

	"verif/harness/ast"
	"verif/harness/gen"
	"verif/harness/jv"
	"verif/harness/model"
	"verif/harness/run"
)

var c13NumKeys = []string{"1", "1.0", "1e0", "10e-1", "2", "2.0", "20e-1", "3", "-1", "-1.0", "0", "-0", "0.0", "1.5", "15e-1", "10", "9", "100", "1e2", "0.5", "5e-1", "5E-1", "1E0", "1E+1", "15E-1"}
var c13StrKeys = []string{"", "a", "b", "ab", "aa", "B", "A", "é", "e", "z", "日", "日本", "😀", "�", "~", "ÿ", "ā", "￿", "𐀀", "a ", " a", "\x7f", "\u0080", "\u07ff", "\u0800", "\ud7ff", "\ue000", "\U00010000", "\U0010ffff"}

// prefixedKeys draws k strings with a common prefix of 0..17 bytes (ASCII, with
// at most one wider character) followed by 0..2 characters of mixed widths.
func prefixedKeys(t *rapid.T, k int) []string {
	plen := rapid.IntRange(0, 17).Draw(t, "prefixlen")
	prefix := "abcdefghijklmnopq"[:plen]
	if plen > 0 && rapid.IntRange(0, 3).Draw(t, "wideinprefix") == 0 {
		at := rapid.IntRange(0, plen-1).Draw(t, "wideat")
		prefix = prefix[:at] + string(gen.Pick(t, "widerune", []rune{'é', '日', '😀'})) + prefix[at+1:]
	}
	tails := []rune{'a', 'z', '~', 0x7f, 0x80, 'é', 'ÿ', 0x7ff, 0x800, '日', '€', 0xd7ff, 0xe000, 0xfffd, 0xffff, 0x10000, '😀', 0x10ffff, '0', ' '}
	out := make([]string, k)
	for i := range out {
		n := rapid.IntRange(0, 2).Draw(t, "taillen")
		tail := make([]rune, n)
		for j := range tail {
			tail[j] = gen.Pick(t, "tailrune", tails)
		}
		out[i] = prefix + string(tail)
	}
	return out
}

// c13Verdict checks the validity predicates of sort / sort_by / min / max /
// min_by / max_by on the result. keys[i] is the key of input element i.
func c13Verdict(fn string, in []jv.Val, keys []jv.Val, out run.Outcome) string {
	if out.Panic != "" {
		return "library panicked: " + out.Panic
	}
	if out.Failed {
		return "unexpected error: " + out.String()
	}
	if out.Info.Foreign != "" || out.Info.BadNumber != "" || out.Info.NilSlice {
		return "result is not plain JSON: " + out.String()
	}
	cmp := func(a, b jv.Val) int {
		if a.K == jv.Num {
			return a.R.Cmp(b.R)
		}
		return strings.Compare(a.S, b.S)
	}
	switch fn {
	case "sort", "sort_by":
		r := out.Val
		if r.K != jv.Arr || len(r.A) != len(in) {
			return fmt.Sprintf("result is not an array of the input's length: %s", out)
		}
		// map each output element back to an input index (ids are unique for
		// records; plain values are matched greedily by strict equality)
		used := make([]bool, len(in))
		idx := make([]int, len(r.A))
		for i, e := range r.A {
			found := -1
			for j := range in {
				if !used[j] && jv.StrictEqual(stripSpelling(in[j]), stripSpelling(e)) && sameSpelling(in[j], e) {
					found = j
					break
				}
			}
			if found < 0 {
				for j := range in {
					if !used[j] && jv.Equal(in[j], e) {
						found = j
						break
					}
				}
			}
			if found < 0 {
				return fmt.Sprintf("result is not a permutation of the input: element %d (%s) has no counterpart", i, e.JSON())
			}
			used[found] = true
			idx[i] = found
		}
		for i := 1; i < len(idx); i++ {
			c := cmp(keys[idx[i-1]], keys[idx[i]])
			if c > 0 {
				return fmt.Sprintf("result is not ordered at position %d: key %s before %s", i, keys[idx[i-1]].JSON(), keys[idx[i]].JSON())
			}
			if fn == "sort_by" && c == 0 && idx[i-1] > idx[i] {
				return fmt.Sprintf("not stable: input elements %d and %d have equal keys but come out swapped", idx[i], idx[i-1])
			}
		}
		return ""
	case "min", "max", "min_by", "max_by":
		if len(in) == 0 {
			if out.Val.K != jv.Null {
				return "expected null for an empty array, got " + out.String()
			}
			return ""
		}
		// the result must be an input element (for min/max: an input value)
		// whose key is extremal
		ok := false
		for j := range in {
			if jv.Equal(in[j], out.Val) {
				extremal := true
				for k := range in {
					c := cmp(keys[k], keys[j])
					if (strings.HasPrefix(fn, "min") && c < 0) || (strings.HasPrefix(fn, "max") && c > 0) {
						extremal = false
						break
					}
				}
				if extremal {
					ok = true
					break
				}
			}
		}
		if !ok {
			return "result is not an extremal element of the input: " + out.String()
		}
		return ""
	}
	return "harness: unknown function " + fn
}

func stripSpelling(v jv.Val) jv.Val { return v }

// sameSpelling prefers matching numbers with identical text (so that 1 and
// 1.0 are told apart when both occur), falling back to value equality.
func sameSpelling(a, b jv.Val) bool {
	return a.JSON() == b.JSON()
}

// C13: sort, sort_by, min/max, min_by/max_by order by value, stably.
func TestC13_Sort(t *testing.T) {
	c := collector("C13", "sort")
	maxLen := 60
	if thorough() {
		maxLen = 400
	}
	check(t, func(t *rapid.T) {
		fn := gen.Pick(t, "fn", []string{"sort", "sort_by", "sort_by", "sort_by", "min", "max", "min_by", "max_by"})
		by := strings.HasSuffix(fn, "_by")
		n := rapid.IntRange(0, 16).Draw(t, "n")
		if rapid.IntRange(0, 2).Draw(t, "long") == 0 {
			n = rapid.IntRange(13, maxLen).Draw(t, "nlong")
		}
		palKind := rapid.IntRange(0, 4).Draw(t, "palette")
		numeric := palKind >= 2
		distinct := rapid.IntRange(1, 4).Draw(t, "distinct")
		pal := c13StrKeys
		if numeric {
			pal = c13NumKeys
		}
		if palKind == 4 {
			// distinct numbers that are equal once rounded to binary64
			pal = nil
			for _, g := range gen.CloseNums {
				pal = append(pal, g...)
			}
			if rapid.Bool().Draw(t, "onegroup") {
				pal = gen.Pick(t, "closegroup", gen.CloseNums)
			}
		}
		pool := make([]string, distinct)
		for i := range pool {
			pool[i] = gen.Pick(t, "poolkey", pal)
		}
		if rapid.IntRange(0, 4).Draw(t, "manykeys") == 0 {
			pool = pal
		}
		if !numeric && rapid.IntRange(0, 2).Draw(t, "sharedprefix") == 0 {
			// keys that agree in their first 0..17 bytes and then go on with
			// characters of different encoded lengths (a comparison by packed
			// prefixes, by words or by bytes with a wrong tie-break shows here)
			pool = prefixedKeys(t, rapid.IntRange(2, 6).Draw(t, "nprefixed"))
		}
		spoil := -1
		if n > 0 && rapid.IntRange(0, 7).Draw(t, "spoil") == 0 {
			spoil = rapid.IntRange(0, n-1).Draw(t, "spoilat")
		}
		in := make([]jv.Val, n)
		keys := make([]jv.Val, n)
		bad := false
		// the *_by functions over plain values with the element itself as key
		// (&@): equal numbers in different spellings are still told apart, so
		// stability is observable -- and sort_by(x, &@) is not sort(x)
		plainBy := by && rapid.IntRange(0, 3).Draw(t, "plainby") == 0
		// the keys in input order: random, or in one of the orders that sort
		// routines treat specially (already sorted, reversed, non-increasing or
		// non-decreasing runs with ties, organ pipe, sorted except for one
		// element)
		drawn := make([]jv.Val, n)
		for i := range drawn {
			if numeric {
				drawn[i] = jv.VNumText(gen.Pick(t, "k", pool))
			} else {
				drawn[i] = jv.VStr(gen.Pick(t, "k", pool))
			}
		}
		if pattern := rapid.IntRange(0, 11).Draw(t, "inputorder"); pattern >= 6 && n > 1 {
			less := func(a, b jv.Val) bool {
				if numeric {
					return a.R.Cmp(b.R) < 0
				}
				return a.S < b.S
			}
			sort.SliceStable(drawn, func(i, j int) bool { return less(drawn[i], drawn[j]) })
			rev := func(a []jv.Val) {
				for i, j := 0, len(a)-1; i < j; i, j = i+1, j-1 {
					a[i], a[j] = a[j], a[i]
				}
			}
			switch pattern {
			case 7, 8: // non-increasing (ties stay adjacent)
				rev(drawn)
			case 9: // organ pipe: up, then down
				rev(drawn[n/2:])
			case 10: // sorted except for one element moved to the front or the end
				if rapid.Bool().Draw(t, "movetofront") {
					last := drawn[n-1]
					copy(drawn[1:], drawn[:n-1])
					drawn[0] = last
				} else {
					first := drawn[0]
					copy(drawn, drawn[1:])
					drawn[n-1] = first
				}
			case 11: // descending runs of a fixed length
				run := gen.Pick(t, "runlen", []int{2, 3, 7, 12, 20})
				for i := 0; i < n; i += run {
					j := i + run
					if j > n {
						j = n
					}
					rev(drawn[i:j])
				}
			}
		}
		for i := 0; i < n; i++ {
			k := drawn[i]
			if i == spoil {
				// a key of the other kind or of another type
				switch rapid.IntRange(0, 3).Draw(t, "spoilkind") {
				case 0:
					k = jv.VNull()
				case 1:
					k = jv.VBool(true)
				case 2:
					if numeric {
						k = jv.VStr("1")
					} else {
						k = jv.VInt(1)
					}
				default:
					k = jv.VArr(nil)
				}
				bad = true
			}
			keys[i] = k
			if by && !plainBy {
				in[i] = jv.VObj([]jv.Member{{K: "k", V: k}, {K: "id", V: jv.VInt(int64(i))}})
			} else {
				in[i] = k
			}
		}
		doc := jv.VObj([]jv.Member{{K: "a", V: jv.VArr(in)}})
		// the subject is the member a itself, or a view of it: a window, a
		// projection or a wrapper that an implementation may hand through
		// without copying (sorting such a view in place changes the caller's
		// array). Windows and projections omit null elements.
		subject := ast.Expr(ast.F("a"))
		if rapid.IntRange(0, 2).Draw(t, "view") == 0 {
			lo, hi, prune := 0, n, true
			switch rapid.IntRange(0, 7).Draw(t, "viewkind") {
			case 0:
				subject = ast.F("a").With(ast.Step{Kind: ast.SSlice})
			case 1:
				subject = ast.F("a").With(ast.Step{Kind: ast.SListStar})
			case 2:
				subject = ast.F("a").With(ast.Step{Kind: ast.SSlice, Start: ast.I64(0)})
			case 3:
				k := rapid.IntRange(1, 3).Draw(t, "viewlo")
				if k > n {
					k = n
				}
				lo = k
				subject = ast.F("a").With(ast.Step{Kind: ast.SSlice, Start: ast.I64(int64(k))})
			case 4:
				k := rapid.IntRange(1, 3).Draw(t, "viewhi")
				if k > n {
					k = n
				}
				hi = n - k
				subject = ast.F("a").With(ast.Step{Kind: ast.SSlice, Stop: ast.I64(int64(n - k))})
			case 5:
				a, b := rapid.IntRange(0, n).Draw(t, "viewa"), rapid.IntRange(0, n).Draw(t, "viewb")
				if a > b {
					a, b = b, a
				}
				lo, hi = a, b
				subject = ast.F("a").With(ast.Step{Kind: ast.SSlice, Start: ast.I64(int64(a)), Stop: ast.I64(int64(b))})
			case 6:
				prune = false
				subject = ast.Call(gen.Pick(t, "viewfn", []string{"to_array", "not_null"}), ast.A(ast.F("a")))
			default:
				prune = false
				subject = ast.Bin("||", ast.F("a"), ast.F("missing"))
				if n == 0 {
					subject = ast.Bin("||", ast.F("missing"), ast.F("a"))
				}
			}
			var in2, keys2 []jv.Val
			for i := lo; i < hi; i++ {
				if prune && in[i].K == jv.Null {
					continue
				}
				in2 = append(in2, in[i])
				keys2 = append(keys2, keys[i])
			}
			in, keys, n = in2, keys2, len(in2)
			c.Label("subject-is-a-view")
		}
		// the array is in the error direction iff some key is neither number
		// nor string, or numbers and strings are mixed
		bad = false
		for _, k := range keys {
			if (k.K != jv.Num && k.K != jv.Str) || k.K != keys[0].K {
				bad = true
			}
		}
		var e ast.Expr
		if by {
			ref := ast.Expr(ast.F("k"))
			letVar := false
			refKind := rapid.IntRange(0, 9).Draw(t, "refkind")
			if plainBy {
				ref = gen.Pick(t, "selfkey", []ast.Expr{ast.Cur(), ast.Cur(), ast.Paren(ast.Cur()), ast.Call("not_null", ast.A(ast.Cur()))})
				refKind = 9
			}
			switch refKind {
			case 0:
				ref = ast.Call("not_null", ast.A(ast.F("k")))
			case 1: // the key expression reads a variable of the enclosing scope for every element
				ref = (&ast.Chain{Head: ast.Head{Kind: ast.HMultiList, Items: []ast.Expr{ast.F("k"), ast.Var("d")}}}).With(ast.Step{Kind: ast.SIndex, Index: 0})
				letVar = true
			case 2:
				ref = ast.Call("not_null", ast.A(ast.Var("missing")), ast.A(ast.F("k")))
				letVar = true
			}
			e = ast.Call(fn, ast.A(subject), ast.Ref(ref))
			if letVar {
				e = &ast.Let{Names: []string{"d", "missing"}, Vals: []ast.Expr{ast.Lit(jv.VInt(1)), ast.Lit(jv.VNull())}, Body: e}
			}
		} else {
			e = ast.Call(fn, ast.A(subject))
		}
		if fn == "sort_by" && !bad && rapid.IntRange(0, 3).Draw(t, "selected") == 0 {
			// a selector applied to the sorted array: stability fixes the whole
			// array, so every element picked from it is determined (an
			// implementation may fuse sort_by(..)[-1] into a single pass)
			sel := gen.Pick(t, "selector", [][]ast.Step{{{Kind: ast.SIndex, Index: -1}}, {{Kind: ast.SIndex, Index: 0}}, {{Kind: ast.SIndex, Index: 1}}, {{Kind: ast.SIndex, Index: -2}},
				{{Kind: ast.SIndex, Index: -1}, {Kind: ast.SField, Name: "id"}}, {{Kind: ast.SIndex, Index: 0}, {Kind: ast.SField, Name: "id"}}, {{Kind: ast.SSlice, Start: ast.I64(-2)}}, {{Kind: ast.SSlice, Stride: ast.I64(-1)}},
				{{Kind: ast.SSlice, Stop: ast.I64(1)}}, {{Kind: ast.SListStar}, {Kind: ast.SField, Name: "id"}}})
			var se ast.Expr
			switch inner := e.(type) {
			case *ast.Chain:
				se = inner.With(sel...)
				if rapid.Bool().Draw(t, "parenthesised") {
					se = ast.Paren(inner).With(sel...)
				}
			default:
				se = ast.Paren(e).With(sel...)
			}
			if rapid.IntRange(0, 3).Draw(t, "piped") == 0 {
				se = ast.Bin("|", e, &ast.Chain{Head: ast.Head{Kind: ast.HImplicit}, Steps: sel})
			}
			stext := ast.RenderWith(se, gen.Chooser{T: t})
			c.Case()
			res, _ := model.Eval(se, doc)
			if res.Undet != "" {
				c.Skip(res.Undet)
				return
			}
			if modelDiff(t, c, "sort-selected", se, stext, doc, res) {
				return
			}
			c.Label("sort_by-selected")
			if n > 12 {
				c.NonTrivial(stext+"\x00"+doc.JSON(), func() any { return map[string]any{"expr": stext, "doc": truncate(doc.JSON(), 200)} })
			}
			return
		}
		text := ast.RenderWith(e, gen.Chooser{T: t})
		node := run.FromVal(doc)
		c.Case()
		call := run.Call{API: "search", Expr: text, Doc: &node}
		run.Watch(c, "sort", call)
		data := node.Build()
		before, _ := jv.FromGo(data)
		out := run.Search(text, data)
		after, _ := jv.FromGo(data)
		msg := ""
		if !jv.StrictEqual(before, after) {
			msg = "the input array was modified"
		} else if bad {
			if out.Panic != "" || !out.Failed || out.Cats&model.InvType == 0 {
				msg = "expected an invalid-type error (mixed or non-number/string keys), got " + out.String()
			}
		} else {
			msg = c13Verdict(fn, in, keys, out)
		}
		if msg != "" {
			extra := map[string]any{"fn": fn, "bad": bad}
			c.Fail(t, run.Replay{Check: "sort", Kind: "custom:c13", Calls: []run.Call{call}, Message: msg, Extra: mustJSON(extra)}, fn+fmt.Sprint(bad))
			return
		}
		c.Label(fn)
		ties := false
		seen := map[string]bool{}
		for _, k := range keys {
			cs := jv.Canon(k, false)
			if seen[cs] {
				ties = true
			}
			seen[cs] = true
		}
		if bad {
			c.Label("error-direction")
		}
		if n > 12 {
			c.Label("longer-than-12")
		}
		if bad || (n > 12 && ties) {
			c.NonTrivial(text+"\x00"+doc.JSON(), func() any {
				s := doc.JSON()
				if len(s) > 300 {
					s = s[:300] + "..."
				}
				return map[string]any{"expr": text, "doc": s, "n": n, "outcome": truncate(out.String(), 200)}
			})
		}
	})
}

func truncate(s string, n int) string {
	if len(s) > n {
		return s[:n] + "..."
	}
	return s
}

func init() {
	customReplays["custom:c13"] = func(r run.Replay) string {
		var ex struct {
			Fn  string `json:"fn"`
			Bad bool   `json:"bad"`
		}
		if err := jsonUnmarshal(r.Extra, &ex); err != nil || len(r.Calls) == 0 || r.Calls[0].Doc == nil {
			return "malformed replay"
		}
		call := r.Calls[0]
		data := call.Doc.Build()
		before, _ := jv.FromGo(data)
		out := run.Search(call.Expr, data)
		after, _ := jv.FromGo(data)
		if !jv.StrictEqual(before, after) {
			return "the input array was modified"
		}
		if ex.Bad {
			if out.Panic != "" || !out.Failed || out.Cats&model.InvType == 0 {
				return "expected an invalid-type error, got " + out.String()
			}
			return ""
		}
		a, _ := before.Get("a")
		keys := make([]jv.Val, len(a.A))
		for i, e := range a.A {
			if strings.HasSuffix(ex.Fn, "_by") {
				keys[i], _ = e.Get("k")
			} else {
				keys[i] = e
			}
		}
		return c13Verdict(ex.Fn, a.A, keys, out)
	}
	_ = sort.Ints
}
