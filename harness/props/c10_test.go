package props

import (
	"fmt"
	"testing"

	"pgregory.net/rapid"

	"verif/harness/ast"
	"verif/harness/gen"
	"verif/harness/jv"
	"verif/harness/model"
	"verif/harness/run"
)

// operand values that make groupings distinguishable
var c10Vals = []string{`"cba"`, `"xabc"`, `"é日a"`, `[[1],[2,3]]`, `[0]`, `[[]]`, `[{"a":1},{"a":0}]`, `{"a":[1,2],"b":[[3]]}`, `[null,1]`, "0", "1", "2", "3", "-1", "5", "7", "0.5", "10", "null", "true", "false", `""`, `"a"`, "[]", "[1]", `{"a":2,"b":3,"c":5}`, `{"a":{"a":1,"b":2,"c":3},"b":7,"c":0}`, `{"a":null,"b":true,"c":false}`, `[[1,2],[3]]`}

type spelledOp struct{ op, text string }

var c10Ops = []spelledOp{{"|", "|"}, {"||", "||"}, {"&&", "&&"}, {"==", "=="}, {"!=", "!="}, {"<", "<"}, {"<=", "<="}, {">", ">"}, {">=", ">="}, {"+", "+"}, {"-", "-"}, {"-", "−"}, {"*", "*"}, {"*", "×"}, {"/", "/"}, {"/", "÷"}, {"//", "//"}, {"%", "%"}}

// fixedOps renders binary operators with a fixed spelling per operator node.
type fixedOps struct {
	spell map[string]string
}

func (f fixedOps) Choose(label string, n int) int { return 0 }

func renderWithOps(e ast.Expr, sp map[*ast.Binary]string) string {
	// canonical rendering, then the unicode spellings are substituted by
	// rendering operands recursively ourselves
	switch e := e.(type) {
	case *ast.Binary:
		if s, ok := sp[e]; ok {
			l := renderOperand(e.L, ast.Prec(e.Op), false, sp)
			r := renderOperand(e.R, ast.Prec(e.Op), true, sp)
			return l + " " + s + " " + r
		}
	case *ast.Unary:
		if _, ok := e.X.(*ast.Binary); ok {
			return e.Op + "(" + renderWithOps(e.X, sp) + ")"
		}
		if c, ok := e.X.(*ast.Chain); ok && (len(c.Steps) > 0 || c.Head.Kind == ast.HImplicit) {
			// how a unary operator applies to an unparenthesised multi-step
			// chain (!a.b) is not pinned by the grammar: always parenthesise
			return e.Op + "(" + renderWithOps(e.X, sp) + ")"
		}
		return e.Op + renderWithOps(e.X, sp)
	case *ast.Chain:
		if e.Head.Kind == ast.HParen && len(e.Steps) == 0 {
			return "(" + renderWithOps(e.Head.X, sp) + ")"
		}
	}
	return ast.Render(e)
}

func renderOperand(e ast.Expr, prec int, right bool, sp map[*ast.Binary]string) string {
	if b, ok := e.(*ast.Binary); ok {
		p := ast.Prec(b.Op)
		if p < prec || (p == prec && right) {
			return "(" + renderWithOps(b, sp) + ")"
		}
	}
	return renderWithOps(e, sp)
}

// C10: operators bind with the specified precedence and associate to the left.
func TestC10_Precedence(t *testing.T) {
	c := collector("C10", "precedence")
	check(t, func(t *rapid.T) {
		o1 := gen.Pick(t, "op1", c10Ops)
		o2 := gen.Pick(t, "op2", c10Ops)
		vals := make([]jv.Val, 3)
		var ms []jv.Member
		atoms := make([]ast.Expr, 3)
		// arithmetic is not associative once results round or overflow: for
		// two operators of the same arithmetic level the values are often
		// taken from triples on which the two groupings differ
		arith := func(o string) int {
			switch o {
			case "+", "-":
				return 1
			case "*", "/":
				return 2
			}
			return 0
		}
		var triple []string
		if arith(o1.op) != 0 && arith(o2.op) != 0 && rapid.Bool().Draw(t, "nonassoc") {
			triple = gen.Pick(t, "triple", [][]string{
				{"1e35", "-1e35", "1"}, {"1", "1e35", "-1e35"}, {"9e6144", "9e6144", "-9e6144"}, {"9e6144", "-9e6144", "9e6144"}, {"1e-6176", "1e6144", "1e100"},
				{"1", "3", "3"}, {"10", "3", "3"}, {"9e6144", "10", "10"}, {"1e-6170", "1e-10", "1e10"}, {"2", "1e6144", "1e-6144"}, {"0.1", "0.2", "0.3"},
				{"5000000000000000000000000000000001", "0.5", "0.5"}, {"1e34", "1", "-1e34"}, {"7", "1e34", "1e34"}, {"1e6144", "1e6144", "2"},
			})
		}
		for i, name := range []string{"a", "b", "c"} {
			valText := gen.Pick(t, "val-"+name, c10Vals)
			if triple != nil {
				valText = triple[i]
			}
			v, err := jv.ParseJSON(valText)
			if err != nil {
				t.Fatalf("HARNESS-BUG: %v", err)
			}
			vals[i] = v
			switch rapid.IntRange(0, 6).Draw(t, "atomkind-"+name) {
			case 6:
				// an operand without a left-hand side: it applies to the
				// current node, which is the piped value on the right of a
				// pipe and the document elsewhere
				ms = append(ms, jv.Member{K: name, V: v})
				st := gen.Pick(t, "bare-"+name, [][]ast.Step{
					{{Kind: ast.SIndex, Index: 0}}, {{Kind: ast.SIndex, Index: -1}}, {{Kind: ast.SIndex, Index: 1}}, {{Kind: ast.SSlice, Start: ast.I64(1)}}, {{Kind: ast.SSlice, Start: ast.I64(0), Stop: ast.I64(1)}},
					{{Kind: ast.SListStar}}, {{Kind: ast.SFlatten}}, {{Kind: ast.SFilter, Cond: ast.Cur()}}, {{Kind: ast.SIndex, Index: 0}, {Kind: ast.SField, Name: "a"}}, {{Kind: ast.SIndex, Index: 0}, {Kind: ast.SIndex, Index: 0}},
					{{Kind: ast.SSlice, Stride: ast.I64(-1)}}, {{Kind: ast.SListStar}, {Kind: ast.SIndex, Index: 0}},
				})
				atoms[i] = &ast.Chain{Head: ast.Head{Kind: ast.HImplicit}, Steps: st}
			case 0:
				atoms[i] = ast.Lit(v)
			case 1, 2:
				// an operand that ends in a selector or projection: operators
				// must still group around the whole operand
				ms = append(ms, jv.Member{K: name, V: v})
				st := gen.Pick(t, "trail-"+name, [][]ast.Step{
					{{Kind: ast.SFlatten}}, {{Kind: ast.SListStar}}, {{Kind: ast.SIndex, Index: 0}}, {{Kind: ast.SIndex, Index: -1}}, {{Kind: ast.SField, Name: "a"}},
					{{Kind: ast.SSlice, Start: ast.I64(0)}}, {{Kind: ast.SFilter, Cond: ast.Cur()}}, {{Kind: ast.SListStar}, {Kind: ast.SField, Name: "a"}}, {{Kind: ast.SFlatten}, {Kind: ast.SIndex, Index: 0}},
					{{Kind: ast.SMultiList, Items: []ast.Expr{ast.Cur()}}}, {{Kind: ast.SField, Name: "b"}, {Kind: ast.SFlatten}},
					{{Kind: ast.SSlice, Stride: ast.I64(-1)}}, {{Kind: ast.SSlice, Start: ast.I64(1)}}, {{Kind: ast.SCall, Name: "length", Args: []ast.Arg{ast.A(ast.Cur())}}}, {{Kind: ast.SCall, Name: "to_array", Args: []ast.Arg{ast.A(ast.Cur())}}},
					{{Kind: ast.SMultiHash, Keys: []string{"a"}, Items: []ast.Expr{ast.Cur()}}},
				})
				// the selectors bind to whatever kind of primary they follow: a
				// field, a literal, a raw string, a call, a parenthesised
				// expression, a multi-select
				heads := []*ast.Chain{ast.F(name), ast.F(name), ast.Lit(v), ast.Call("not_null", ast.A(ast.F(name))), ast.Paren(ast.F(name)),
					{Head: ast.Head{Kind: ast.HMultiList, Items: []ast.Expr{ast.F(name)}}}, {Head: ast.Head{Kind: ast.HCurrent}, Steps: []ast.Step{{Kind: ast.SField, Name: name}}}}
				if v.K == jv.Str {
					heads = append(heads, ast.RawS(v.S), ast.RawS(v.S))
				}
				atoms[i] = gen.Pick(t, "head-"+name, heads).With(st...)
			case 3:
				ms = append(ms, jv.Member{K: name, V: v})
				atoms[i] = gen.Pick(t, "wrap-"+name, []ast.Expr{ast.Call("not_null", ast.A(ast.F(name))), ast.Call("to_array", ast.A(ast.F(name))).With(ast.Step{Kind: ast.SFlatten}),
					&ast.Chain{Head: ast.Head{Kind: ast.HMultiList, Items: []ast.Expr{ast.F(name)}}}, (&ast.Chain{Head: ast.Head{Kind: ast.HMultiList, Items: []ast.Expr{ast.F(name)}}}).With(ast.Step{Kind: ast.SFlatten}),
					ast.Paren(ast.F(name)), &ast.Chain{Head: ast.Head{Kind: ast.HMultiHash, Keys: []string{"a"}, Items: []ast.Expr{ast.F(name)}}},
					// a parenthesised group that ends in a selector or projection (parsers
					// treat a closed projection, and a closed slice in particular, specially)
					ast.Paren(ast.F(name).With(ast.Step{Kind: ast.SSlice, Start: ast.I64(1)})), ast.Paren(ast.F(name).With(ast.Step{Kind: ast.SSlice, Stop: ast.I64(1)})), ast.Paren(ast.F(name).With(ast.Step{Kind: ast.SSlice, Stride: ast.I64(-1)})),
					ast.Paren((&ast.Chain{Head: ast.Head{Kind: ast.HCurrent}}).With(ast.Step{Kind: ast.SField, Name: name}, ast.Step{Kind: ast.SSlice, Start: ast.I64(5)})),
					ast.Paren(ast.F(name).With(ast.Step{Kind: ast.SListStar})), ast.Paren(ast.F(name).With(ast.Step{Kind: ast.SFlatten})), ast.Paren(ast.F(name).With(ast.Step{Kind: ast.SFilter, Cond: ast.Cur()})),
					ast.Paren(ast.F(name).With(ast.Step{Kind: ast.SIndex, Index: 0})), ast.Paren(ast.F(name).With(ast.Step{Kind: ast.SListStar}, ast.Step{Kind: ast.SField, Name: "a"}))})
			default:
				ms = append(ms, jv.Member{K: name, V: v})
				atoms[i] = ast.F(name)
			}
		}
		// an operand may itself carry a unary operator (which binds tighter than
		// every binary operator): !a && !b == c
		for i := range atoms {
			switch rapid.IntRange(0, 11).Draw(t, "unary-"+string(rune(97+i))) {
			case 0, 1, 2:
				atoms[i] = &ast.Unary{Op: "!", X: atoms[i]}
			case 3:
				atoms[i] = &ast.Unary{Op: gen.Pick(t, "usign", []string{"-", "+"}), X: atoms[i]}
			case 4:
				atoms[i] = &ast.Unary{Op: "!", X: &ast.Unary{Op: "!", X: atoms[i]}}
			}
		}
		doc := jv.VObj(ms)
		shape := rapid.IntRange(0, 9).Draw(t, "shape")
		sp := map[*ast.Binary]string{}
		mk := func(o spelledOp, l, r ast.Expr) *ast.Binary {
			b := ast.Bin(o.op, l, r)
			sp[b] = o.text
			return b
		}
		var spec, other ast.Expr // the specified grouping and the competing one
		var implicit string
		label := ""
		switch {
		case shape <= 6:
			// a o1 b o2 c
			p1, p2 := ast.Prec(o1.op), ast.Prec(o2.op)
			left := mk(o2, mk(o1, atoms[0], atoms[1]), atoms[2])  // (a o1 b) o2 c
			right := mk(o1, atoms[0], mk(o2, atoms[1], atoms[2])) // a o1 (b o2 c)
			if p1 >= p2 {
				spec, other = left, right
			} else {
				spec, other = right, left
			}
			label = o1.text + " " + o2.text
		case shape == 7:
			// !a o1 b  :  (!a) o1 b   vs  !(a o1 b)
			spec = mk(o1, &ast.Unary{Op: "!", X: atoms[0]}, atoms[1])
			other = &ast.Unary{Op: "!", X: mk(o1, atoms[0], atoms[1])}
			label = "! " + o1.text
		case shape == 8:
			sign := gen.Pick(t, "sign", []string{"-", "+"})
			spec = mk(o1, &ast.Unary{Op: sign, X: atoms[0]}, atoms[1])
			other = &ast.Unary{Op: sign, X: mk(o1, atoms[0], atoms[1])}
			label = sign + "u " + o1.text
		default:
			// a o1 !b  /  a o1 -b : unary on the right operand
			u := gen.Pick(t, "un", []string{"!", "-", "+"})
			spec = mk(o1, atoms[0], mk(o2, &ast.Unary{Op: u, X: atoms[1]}, atoms[2]))
			if ast.Prec(o1.op) >= ast.Prec(o2.op) {
				spec = mk(o2, mk(o1, atoms[0], &ast.Unary{Op: u, X: atoms[1]}), atoms[2])
			}
			other = mk(o1, atoms[0], &ast.Unary{Op: u, X: mk(o2, atoms[1], atoms[2])})
			label = o1.text + " " + u + "u " + o2.text
		}
		implicit = renderWithOps(spec, sp)
		// explicit: every binary operand wrapped in parentheses
		var paren func(e ast.Expr) ast.Expr
		paren = func(e ast.Expr) ast.Expr {
			switch e := e.(type) {
			case *ast.Binary:
				b := ast.Bin(e.Op, ast.Paren(paren(e.L)), ast.Paren(paren(e.R)))
				sp[b] = sp[e]
				return b
			case *ast.Unary:
				return &ast.Unary{Op: e.Op, X: ast.Paren(paren(e.X))}
			}
			return e
		}
		explicit := renderWithOps(paren(spec), sp)
		// the whole chain inside a construct that parses its content with its
		// own entry point (expression references, multi-select items, hash
		// values, let bindings, arguments, parentheses, either side of a pipe):
		// the value is the same, and so must the grouping be
		if ctx := rapid.IntRange(0, 18).Draw(t, "context"); ctx >= 8 {
			cur := func() ast.Expr { return ast.Cur() }
			one := func(x ast.Expr) *ast.Chain { return &ast.Chain{Head: ast.Head{Kind: ast.HMultiList, Items: []ast.Expr{x}}} }
			first := ast.Step{Kind: ast.SIndex, Index: 0}
			var wt func(string) string
			var wa func(ast.Expr) ast.Expr
			switch ctx {
			case 8:
				wt = func(x string) string { return "map(&" + x + ", [@])[0]" }
				wa = func(x ast.Expr) ast.Expr { return ast.Call("map", ast.Ref(x), ast.A(one(cur()))).With(first) }
			case 9:
				wt = func(x string) string { return "[" + x + "][0]" }
				wa = func(x ast.Expr) ast.Expr { return one(x).With(first) }
			case 10:
				wt = func(x string) string { return "{k: " + x + "}.k" }
				wa = func(x ast.Expr) ast.Expr {
					return (&ast.Chain{Head: ast.Head{Kind: ast.HMultiHash, Keys: []string{"k"}, Items: []ast.Expr{x}}}).With(ast.Step{Kind: ast.SField, Name: "k"})
				}
			case 11:
				wt = func(x string) string { return "let $v = " + x + " in $v" }
				wa = func(x ast.Expr) ast.Expr { return &ast.Let{Names: []string{"v"}, Vals: []ast.Expr{x}, Body: ast.Var("v")} }
			case 12:
				wt = func(x string) string { return "let $v = `1` in " + x }
				wa = func(x ast.Expr) ast.Expr { return &ast.Let{Names: []string{"v"}, Vals: []ast.Expr{ast.Lit(jv.VInt(1))}, Body: x} }
			case 13:
				wt = func(x string) string { return "not_null(" + x + ", `null`)" }
				wa = func(x ast.Expr) ast.Expr { return ast.Call("not_null", ast.A(x), ast.A(ast.Lit(jv.VNull()))) }
			case 16:
				// a filter predicate is a full expression: every operator, the
				// pipe included, is available inside it
				wt = func(x string) string { return "[@][?" + x + "]" }
				wa = func(x ast.Expr) ast.Expr { return one(cur()).With(ast.Step{Kind: ast.SFilter, Cond: x}) }
			case 17:
				wt = func(x string) string { return "[@] | [?" + x + "]" }
				wa = func(x ast.Expr) ast.Expr {
					return ast.Bin("|", one(cur()), &ast.Chain{Head: ast.Head{Kind: ast.HImplicit}, Steps: []ast.Step{{Kind: ast.SFilter, Cond: x}}})
				}
			case 18:
				wt = func(x string) string { return "[@][? " + x + " ][0]" }
				wa = func(x ast.Expr) ast.Expr {
					return ast.Bin("|", one(cur()).With(ast.Step{Kind: ast.SFilter, Cond: x}), &ast.Chain{Head: ast.Head{Kind: ast.HImplicit}, Steps: []ast.Step{{Kind: ast.SListStar}, first}})
				}
			case 14:
				wt = func(x string) string { return "max_by([@], &" + x + " && `1`) | " + x }
				wa = nil
			default:
				wt = func(x string) string { return "[@][?`true`] | [0] | (" + x + ")" }
				wa = nil
			}
			if wa != nil {
				implicit, explicit = wt(implicit), wt(explicit)
				spec, other = wa(spec), wa(other)
				label += " in-context"
			}
		}
		c.Case()
		rs, _ := model.Eval(spec, doc)
		ro, _ := model.Eval(other, doc)
		node := run.FromVal(doc)
		calls := []run.Call{{API: "search", Expr: implicit, Doc: &node}, {API: "search", Expr: explicit, Doc: &node}}
		run.Watch(c, "precedence", calls...)
		oi := run.Search(implicit, node.Build())
		oe := run.Search(explicit, node.Build())
		// (1) writing the implied parentheses never changes the outcome
		if msg := run.SameOutcome(oi, oe, false); msg != "" {
			c.Fail(t, run.Replay{Check: "precedence", Kind: "same", Calls: calls, Message: "implicit vs explicitly parenthesised: " + msg}, "meta:"+label)
			return
		}
		// (2) the implicit spelling has the specified grouping's value
		if rs.Undet == "" {
			if msg := run.CheckAgainst(rs, oi); msg != "" {
				exp := &run.Expect{}
				if rs.Err != 0 {
					exp.Errors = rs.Err.Names()
				} else {
					exp.Value = &run.EncVal{V: rs.V}
				}
				c.Fail(t, run.Replay{Check: "precedence", Kind: "expect", Calls: calls[:1], Expect: exp, Message: msg}, "model:"+label)
				return
			}
		} else {
			c.Skip(rs.Undet)
		}
		// distinguishing document: the two groupings differ
		if rs.Undet == "" && ro.Undet == "" {
			differ := (rs.Err != 0) != (ro.Err != 0) || (rs.Err != 0 && rs.Err&ro.Err == 0) || (rs.Err == 0 && !jv.Equal(rs.V, ro.V))
			if differ {
				c.Label("distinguished: " + label)
				c.NonTrivial(implicit+"\x00"+doc.JSON(), func() any {
					return map[string]any{"implicit": implicit, "explicit": explicit, "doc": doc.JSON(), "specified_grouping": describe(rs), "other_grouping": describe(ro)}
				})
				return
			}
		}
		// weaker: the competing grouping applies arithmetic to a non-number at
		// its root (so it yields null or an invalid-type error, never a value
		// other than null) while the specified grouping yields a non-null value
		if rs.Undet == "" && rs.Err == 0 && rs.V.K != jv.Null && (ro.Undet == "arithmetic-on-non-number" || ro.Undet == "unary-sign-non-number") && rootIsArith(other) {
			c.Label("distinguished: " + label)
			c.NonTrivial(implicit+"\x00"+doc.JSON(), func() any {
				return map[string]any{"implicit": implicit, "explicit": explicit, "doc": doc.JSON(), "specified_grouping": describe(rs), "other_grouping": "null or invalid-type (arithmetic on a non-number)"}
			})
			return
		}
		c.Label("not-distinguished")
	})
}

func rootIsArith(e ast.Expr) bool {
	switch e := e.(type) {
	case *ast.Binary:
		return ast.Prec(e.Op) >= 6
	case *ast.Unary:
		return e.Op != "!"
	}
	return false
}

var _ = fmt.Sprint
