package props

import (
	"fmt"
	"runtime"
	"strconv"
	"strings"
	"testing"
	"time"

	"pgregory.net/rapid"

	"verif/harness/ast"
	"verif/harness/gen"
	"verif/harness/jv"
	"verif/harness/model"
	"verif/harness/run"
)

// Times are CPU times of the calling thread (run.CPUTimed), so that a busy
// machine does not inflate them.
//
// costBound: generous absolute bounds for inputs and results of at most
// ~10^4 elements: at least 10^4 times the normal cost of such a case.
const (
	c09TimeLimit  = 3 * time.Second
	c09AllocLimit = 256 << 20
)

type measured struct {
	out     run.Outcome
	elapsed time.Duration
	alloc   uint64
}

func measure(text string, data any) measured {
	var m0, m1 runtime.MemStats
	runtime.ReadMemStats(&m0)
	var o run.Outcome
	el := run.CPUTimed(func() { o = run.Search(text, data) })
	runtime.ReadMemStats(&m1)
	return measured{out: o, elapsed: el, alloc: m1.TotalAlloc - m0.TotalAlloc}
}

// c09Verdict runs the call and checks the cost bounds; a miss is confirmed by
// a second run before it counts.
func c09Verdict(text string, node run.Node) string {
	m := measure(text, node.Build())
	if m.out.Panic != "" {
		return "panic: " + m.out.Panic
	}
	if m.elapsed > c09TimeLimit || m.alloc > c09AllocLimit {
		m2 := measure(text, node.Build())
		if m2.elapsed > c09TimeLimit {
			return fmt.Sprintf("the call took %v and %v (bound %v) for an expression of %d bytes", m.elapsed, m2.elapsed, c09TimeLimit, len(text))
		}
		if m2.alloc > c09AllocLimit && m.alloc > c09AllocLimit {
			return fmt.Sprintf("the call allocated %d MiB and %d MiB (bound %d MiB) for an expression of %d bytes", m.alloc>>20, m2.alloc>>20, c09AllocLimit>>20, len(text))
		}
	}
	return ""
}

var bigNumTexts = []string{"1e6000", "-1e6000", "1e-6000", "9.99e6144", "1e6145", "1e-6176", "1e-6177", "1e100000", "1e-100000", "1e999999999", "1e-999999999", strings.Repeat("9", 400), "0." + strings.Repeat("0", 300) + "1", strings.Repeat("1", 100) + "." + strings.Repeat("7", 100), "1" + strings.Repeat("0", 350), "-" + strings.Repeat("9", 40) + "e3000"}

// C09 (parameters): the magnitude of integer parameters and of numeric text
// never drives time or memory.
func TestC09_Params(t *testing.T) {
	c := collector("C09", "params")
	check(t, func(t *rapid.T) {
		n := rapid.IntRange(0, 12).Draw(t, "n")
		subj := sliceSubject(t, n)
		doc := jv.VObj([]jv.Member{{K: "a", V: subj}, {K: "s", V: jv.VStr("a,b,,aab,a")}, {K: "arr", V: jv.VArr([]jv.Val{jv.VInt(1), jv.VInt(2), jv.VInt(3)})}})
		big := func(label string) ast.Expr { return ast.Lit(jv.VInt(gen.HostileInt(t, n))) }
		strSubject := func() ast.Expr {
			return gen.Pick(t, "strsubject", []ast.Expr{ast.F("s"), ast.F("s"), ast.RawS(""), ast.RawS("a"), ast.RawS("ééé")})
		}
		needle := func() ast.Expr { return ast.RawS(gen.Pick(t, "needle", []string{"a", "a", "", "zz", ",a", "a,b,,aab,a,"})) }
		var e ast.Expr
		kind := rapid.IntRange(0, 17).Draw(t, "kind")
		var floatDoc *run.Node
		label := ""
		switch kind {
		case 0, 1:
			s := ast.Step{Kind: ast.SSlice, Start: optHostile(t, "start", n), Stop: optHostile(t, "stop", n)}
			st := gen.HostileInt(t, 3)
			if st == 0 {
				st = 1
			}
			s.Stride = ast.I64(st)
			e = ast.F("a").With(s)
			label = "slice"
		case 2:
			e = ast.F("a").With(ast.Step{Kind: ast.SIndex, Index: gen.HostileInt(t, n)})
			label = "index"
		case 3:
			e = ast.Call(gen.Pick(t, "find", []string{"find_first", "find_last"}), ast.A(strSubject()), ast.A(needle()), ast.A(big("start")))
			label = "find-offset"
		case 4:
			e = ast.Call(gen.Pick(t, "find", []string{"find_first", "find_last"}), ast.A(strSubject()), ast.A(needle()), ast.A(big("start")), ast.A(big("end")))
			label = "find-window"
		case 5:
			e = ast.Call("split", ast.A(strSubject()), ast.A(ast.RawS(gen.Pick(t, "sep", []string{",", "", "a", "zz", "a,b,,aab,a,"}))), ast.A(big("count")))
			label = "split-count"
		case 6:
			// (every relation between the strings: an empty or absent search
			// string, an empty replacement, an empty subject)
			e = ast.Call("replace", ast.A(strSubject()), ast.A(ast.RawS(gen.Pick(t, "old", []string{"a", "a", "", ",", "aab", "zz", "a,b,,aab,a"}))), ast.A(ast.RawS(gen.Pick(t, "new", []string{"bb", "", "a", "-", "é"}))), ast.A(big("count")))
			label = "replace-count"
		case 7:
			// pad: only widths the result size of which is small are in scope
			w := int64(rapid.IntRange(0, 2000).Draw(t, "width"))
			e = ast.Call(gen.Pick(t, "pad", []string{"pad_left", "pad_right"}), ast.A(ast.F("s")), ast.A(ast.Lit(jv.VInt(w))))
			label = "pad-small"
		case 8, 9:
			// numeric text over the whole decimal range and beyond
			a := jv.Val{K: jv.Num, T: gen.Pick(t, "bignum", bigNumTexts)}
			a.R, _ = jv.ParseNum("0")
			b := jv.Val{K: jv.Num, T: gen.Pick(t, "bignum2", bigNumTexts)}
			b.R, _ = jv.ParseNum("0")
			op := gen.Pick(t, "op", []string{"+", "-", "*", "/", "//", "%", "==", "<"})
			e = ast.Bin(op, ast.Lit(a), ast.Lit(b))
			if rapid.Bool().Draw(t, "fn") {
				e = ast.Call(gen.Pick(t, "nfn", []string{"abs", "ceil", "floor", "to_string", "to_number", "type", "not_null"}), ast.A(ast.Lit(a)))
			}
			label = "numeric-text"
		case 10:
			e = ast.Call("to_number", ast.A(ast.RawS(gen.Pick(t, "bignum", bigNumTexts))))
			label = "to_number-text"
		case 16, 17:
			// integer arguments written as number text with an enormous exponent:
			// zero stays zero whatever the exponent says (0e9000000000000000000),
			// and everything else is out of range at once; neither may cost
			// time proportional to the exponent
			txt := gen.Pick(t, "hugeexp", []string{"0e1000000000", "0e9000000000000000000", "-0e18446744073709551615", "0E+4000000000", "0.0e99999999999", "0e-9000000000000000000", "0.000e+123456789012",
				"1e1000000000", "1e9000000000000000000", "-1E+999999999999", "1e-9000000000000000000", "10e-1000000000", "0e18446744073709551616", "0e99999999999999999999999"})
			hv := jv.VInt(0)
			hv.T = txt // (the renderer writes the text; the value is not used here)
			lit := ast.Lit(hv)
			switch rapid.IntRange(0, 7).Draw(t, "intarg") {
			case 0:
				e = ast.Call(gen.Pick(t, "padfn", []string{"pad_left", "pad_right"}), ast.A(ast.F("s")), ast.A(lit))
			case 1:
				e = ast.Call("find_first", ast.A(ast.F("s")), ast.A(ast.RawS("a")), ast.A(lit))
			case 2:
				e = ast.Call("find_last", ast.A(ast.F("s")), ast.A(ast.RawS("a")), ast.A(ast.Lit(jv.VInt(0))), ast.A(lit))
			case 3:
				e = ast.Call("replace", ast.A(ast.F("s")), ast.A(ast.RawS("a")), ast.A(ast.RawS("b")), ast.A(lit))
			case 4:
				e = ast.Call("split", ast.A(ast.F("s")), ast.A(ast.RawS(",")), ast.A(lit))
			case 5:
				e = ast.Bin(gen.Pick(t, "hop", []string{"+", "*", "//", "%", "==", "<"}), lit, ast.Lit(jv.VInt(3)))
			case 6:
				e = ast.Call(gen.Pick(t, "hfn", []string{"abs", "ceil", "floor", "to_string", "sum", "type"}), ast.A(lit))
				if c, ok := e.(*ast.Chain); ok && c.Head.Name == "sum" {
					c.Head.Args = []ast.Arg{ast.A(&ast.Chain{Head: ast.Head{Kind: ast.HMultiList, Items: []ast.Expr{lit, lit}}})}
				}
			default:
				e = ast.Call("to_number", ast.A(ast.RawS(txt)))
			}
			label = "huge-exponent-text"
		case 14, 15:
			// arithmetic on Go floats of extreme magnitude (the float paths
			// have their own code): quotients beyond 2^53, subnormals, the
			// largest finite values
			fl := func(label string) run.Node {
				return run.Node{T: gen.Pick(t, label+"-kind", []string{"float64", "float64", "float32"}), S: gen.Pick(t, label, []string{"1e300", "1e17", "1.7976931348623157e308", "5e-324", "9223372036854775808", "9007199254740993",
					"11", "0.3", "3", "0.1", "1e-300", "-7", "2.5", "1e38", "3.4028234663852886e38", "1e-45", "0", "-0", "18446744073709551616", "4503599627370497"})}
			}
			d := run.Node{T: "object", K: []string{"a", "b", "arr"}, A: []run.Node{fl("fa"), fl("fb"), {T: "array", A: []run.Node{fl("f1"), fl("f2"), fl("f3")}}}}
			floatDoc = &d
			op := gen.Pick(t, "fop", []string{"//", "%", "/", "*", "+", "-"})
			e = gen.Pick(t, "fform", []ast.Expr{ast.Bin(op, ast.F("a"), ast.F("b")), ast.Bin(op, ast.F("b"), ast.F("a")), ast.Bin(op, ast.Bin(op, ast.F("a"), ast.F("b")), ast.F("a")),
				ast.Call("sum", ast.A(ast.F("arr"))), ast.Call("avg", ast.A(ast.F("arr"))), ast.Call("sort", ast.A(ast.F("arr"))), ast.Call("floor", ast.A(ast.Bin(op, ast.F("a"), ast.F("b")))),
				ast.Call("map", ast.Ref(ast.Bin(op, ast.Cur(), ast.F("b"))), ast.A(ast.F("arr"))), ast.Call("to_string", ast.A(ast.Bin(op, ast.F("a"), ast.F("b")))), ast.Bin("==", ast.Bin(op, ast.F("a"), ast.F("b")), ast.F("a"))})
			label = "float-extremes"
		case 12, 13:
			// a call that can only fail (another argument is invalid) must fail
			// before it does anything sized by the huge one: widths of 2^28..2^31
			// (a reservation of that size shows as allocation, without
			// exhausting the machine), counts over the whole range
			w := ast.Lit(jv.VInt(gen.Pick(t, "hugewidth", []int64{1 << 28, 1 << 30, 1<<31 - 1, 1 << 31, 3 << 30})))
			badPad := ast.RawS(gen.Pick(t, "badpad", []string{"", "ab", "éé", "   "}))
			switch rapid.IntRange(0, 5).Draw(t, "invalidcall") {
			case 0:
				e = ast.Call("pad_left", ast.A(ast.F("s")), ast.A(w), ast.A(badPad))
			case 1:
				e = ast.Call("pad_right", ast.A(ast.F("s")), ast.A(w), ast.A(badPad))
			case 2:
				e = ast.Call(gen.Pick(t, "padfn", []string{"pad_left", "pad_right"}), ast.A(ast.F("arr")), ast.A(w))
			case 3:
				e = ast.Call(gen.Pick(t, "padfn", []string{"pad_left", "pad_right"}), ast.A(ast.F("s")), ast.A(w), ast.A(ast.F("arr")))
			case 4:
				e = ast.Call("split", ast.A(ast.F("s")), ast.A(ast.F("arr")), ast.A(big("count")))
			default:
				e = ast.Call("replace", ast.A(ast.F("s")), ast.A(ast.RawS("a")), ast.A(ast.F("arr")), ast.A(big("count")))
			}
			label = "invalid-call-huge-argument"
		default:
			// negative / huge widths and counts are errors, not work
			e = ast.Call("pad_left", ast.A(ast.F("s")), ast.A(ast.Lit(jv.VInt(-gen.HostileInt(t, n)&^(1<<62)*-1))))
			e = ast.Call("split", ast.A(ast.F("s")), ast.A(ast.RawS("")), ast.A(big("count")))
			label = "split-empty-sep-count"
		}
		text := ast.Render(e)
		node := run.FromVal(doc)
		if floatDoc != nil {
			node = *floatDoc
		}
		c.Case()
		call := run.Call{API: "search", Expr: text, Doc: &node}
		run.Watch(c, "params", call)
		if msg := c09Verdict(text, node); msg != "" {
			c.Fail(t, run.Replay{Check: "params", Kind: "custom:c09", Calls: []run.Call{call}, Message: msg}, label)
			return
		}
		c.Label(label)
		hugeParam := false
		ast.Walk(e, func(x ast.Expr) {
			if ch, ok := x.(*ast.Chain); ok {
				if ch.Head.Kind == ast.HLiteral && ch.Head.Lit.K == jv.Num && len(ch.Head.Lit.JSON()) >= 10 {
					hugeParam = true
				}
				for _, s := range ch.Steps {
					for _, p := range []*int64{s.Start, s.Stop, s.Stride} {
						if p != nil && (*p >= 1<<31 || *p <= -(1<<31)) {
							hugeParam = true
						}
					}
					if s.Kind == ast.SIndex && (s.Index >= 1<<31 || s.Index <= -(1<<31)) {
						hugeParam = true
					}
				}
			}
		})
		if hugeParam {
			c.NonTrivial(text+"\x00"+doc.JSON(), func() any { return map[string]any{"expr": truncate(text, 200), "doc": truncate(doc.JSON(), 120)} })
		}
	})
}

// scalable families: size n -> (expression, data)
type family struct {
	name string
	mk   func(n int) (string, run.Node)
}

func numArray(n int, f func(i int) run.Node) run.Node {
	a := run.Node{T: "array", A: make([]run.Node, n)}
	for i := range a.A {
		a.A[i] = f(i)
	}
	return a
}

func objWith(k string, v run.Node) run.Node {
	return run.Node{T: "object", K: []string{k}, A: []run.Node{v}}
}

var families = func() []family {
	num := func(i int) run.Node { return run.Node{T: "json.Number", S: strconv.Itoa((i * 7919) % 10007)} }
	str := func(i int) run.Node { return run.Node{T: "string", S: "k" + strconv.Itoa((i*7919)%10007)} }
	rec := func(i int) run.Node {
		return run.Node{T: "object", K: []string{"k", "id"}, A: []run.Node{{T: "json.Number", S: strconv.Itoa(i % 7)}, {T: "json.Number", S: strconv.Itoa(i)}}}
	}
	arrFam := func(name, expr string, el func(int) run.Node) family {
		return family{name, func(n int) (string, run.Node) { return expr, objWith("a", numArray(n, el)) }}
	}
	strFam := func(name, expr string) family {
		return family{name, func(n int) (string, run.Node) {
			return expr, objWith("s", run.Node{T: "string", S: strings.Repeat("aé,b", n/4)})
		}}
	}
	exprFam := func(name string, mk func(n int) string) family {
		return family{name, func(n int) (string, run.Node) {
			return mk(n), objWith("a", run.Node{T: "array", A: []run.Node{{T: "json.Number", S: "1"}}})
		}}
	}
	return []family{
		arrFam("sort-numbers", "sort(a)", num), arrFam("sort-strings", "sort(a)", str), arrFam("sort_by", "sort_by(a, &k)", rec), arrFam("max_by", "max_by(a, &k)", rec),
		arrFam("group_by", "group_by(a, &to_string(k))", rec), arrFam("flatten", "a[]", num), arrFam("filter", "a[?@ > `5000`]", num), arrFam("projection", "a[*].[@, @]", num),
		arrFam("reverse", "reverse(a)", num), arrFam("join", "join(',', a)", str), arrFam("sum", "sum(a)", num), arrFam("slice-step", "a[::3]", num), arrFam("equality", "a == a", num),
		arrFam("contains", "contains(a, `-1`)", num), arrFam("map", "map(&@ + `1`, a)", num), arrFam("to_string", "to_string(a)", num), arrFam("zip", "zip(a, a)", num),
		strFam("split", "split(s, ',')"), strFam("split-empty", "split(s, '')"), strFam("replace", "replace(s, 'a', 'bb')"), strFam("find_last", "find_last(s, 'zz')"),
		strFam("string-slice", "s[::-2]"), strFam("reverse-string", "reverse(s)"), strFam("length", "length(s)"), strFam("pad", "pad_left(s, `5`)"), strFam("trim", "trim(s, 'a')"),
		exprFam("chain-fields", func(n int) string { return "a" + strings.Repeat(".a", n) }),
		exprFam("chain-index", func(n int) string { return "a" + strings.Repeat("[0]", n) }),
		exprFam("nested-parens", func(n int) string { return strings.Repeat("(", n) + "a" + strings.Repeat(")", n) }),
		exprFam("or-chain", func(n int) string { return "a" + strings.Repeat("||a", n) }),
		exprFam("pipe-chain", func(n int) string { return "a" + strings.Repeat("|@", n) }),
		exprFam("plus-chain", func(n int) string { return "`1`" + strings.Repeat("+`1`", n) }),
		exprFam("multiselect-wide", func(n int) string { return "[" + strings.Repeat("a,", n) + "a]" }),
		exprFam("hash-wide", func(n int) string {
			var b strings.Builder
			b.WriteString("{")
			for i := 0; i < n; i++ {
				fmt.Fprintf(&b, "k%d:a,", i)
			}
			b.WriteString("z:a}")
			return b.String()
		}),
		exprFam("literal-array", func(n int) string { return "`[" + strings.Repeat("1,", n) + "1]`" }),
		exprFam("literal-digits", func(n int) string { return "`" + strings.Repeat("7", n) + "` + `1`" }),
		exprFam("raw-string", func(n int) string { return "'" + strings.Repeat("a\\'", n/3) + "'" }),
		exprFam("nested-not", func(n int) string { return strings.Repeat("!", n) + "a" }),
		exprFam("liststar-chain", func(n int) string { return "a" + strings.Repeat("[*]", n/100) }),
		exprFam("flatten-chain", func(n int) string { return "a" + strings.Repeat("[]", n) }),
		exprFam("let-chain", func(n int) string { return strings.Repeat("let $x = a in ", n/10) + "$x" }),
	}
}()

// nestFamilies: a construct wrapped around itself n times (left-nested via
// parentheses, function calls, multi-selects, lets): cost must stay polynomial
// in the nesting depth. Sizes are depths, much smaller than for the flat
// families (an exponential blow-up shows at depth 25-50).
var nestFamilies = func() []family {
	data := func() run.Node {
		rec := func(i int) run.Node {
			return run.Node{T: "object", K: []string{"v", "k"}, A: []run.Node{{T: "array", A: []run.Node{{T: "json.Number", S: strconv.Itoa(i)}}}, {T: "json.Number", S: strconv.Itoa(i % 3)}}}
		}
		one := run.Node{T: "array", A: []run.Node{{T: "json.Number", S: "1"}}}
		return run.Node{T: "object", K: []string{"v", "k", "a", "one"}, A: []run.Node{numArray(3, rec), {T: "json.Number", S: "1"}, numArray(3, rec), one}}
	}
	dataNest := func(name, text string, kind int) family {
		return family{"nest:data-" + name, func(n int) (string, run.Node) {
			chain := func() run.Node {
				d := run.Node{T: "json.Number", S: "1"}
				for i := 0; i < n; i++ {
					if kind == 0 || (kind == 2 && i%2 == 0) {
						d = run.Node{T: "object", K: []string{"k"}, A: []run.Node{d}}
					} else {
						d = run.Node{T: "array", A: []run.Node{d}}
					}
				}
				return d
			}
			return text, run.Node{T: "object", K: []string{"a", "b"}, A: []run.Node{chain(), chain()}}
		}}
	}
	wrap := func(name, pre, post string) family {
		return family{"nest:" + name, func(n int) (string, run.Node) {
			return strings.Repeat(pre, n) + "@" + strings.Repeat(post, n), data()
		}}
	}
	return []family{
		wrap("paren-slice-field", "(", ")[:].v"), wrap("paren-revslice-field", "(", ")[::-1].v"), wrap("paren-liststar-field", "(", ")[*].v"), wrap("paren-flatten-field", "(", ")[].v"),
		wrap("paren-filter-field", "(", ")[?v].v"), wrap("paren-field", "(", ").v"), wrap("paren-index", "(", ")[0]"), wrap("paren-star", "(", ").*"), wrap("paren-slice", "(", ")[1:]"),
		wrap("sort_by", "sort_by(", ", &k)"), wrap("not_null", "not_null(", ")"), wrap("to_array-slice", "to_array(", ")[:].v"), wrap("map", "map(&v, ", ")"), wrap("reverse", "reverse(to_array(", "))"),
		wrap("list-index", "[", "][0]"), wrap("hash-field", "{v: ", "}.v"), wrap("pipe", "(", " | v)"), wrap("or", "(", " || v)"), wrap("and", "(", " && v)"), wrap("not", "!(", ")"),
		wrap("let", "let $x = ", " in $x.v"), wrap("let-paren", "(let $x = ", " in $x)[:].v"), wrap("eq", "(", " == @)"), wrap("plus", "(length(", ") + `1`)"), wrap("neg", "-(", ")"),
		wrap("merge", "merge(", ", `{}`)"), wrap("join", "join(',', to_array(to_string(", ")))"), wrap("filter-nested", "v[?(", ")]"),
		// nesting inside expression references and conditions, over a
		// one-element array: every level is evaluated exactly once
		wrap("ref-max_by", "max_by($.one, &", ")"), wrap("ref-min_by", "min_by($.one, &", ")"), wrap("ref-sort_by", "sort_by($.one, &", ")[0]"),
		wrap("ref-group_by", "length(group_by($.one, &to_string(", ")))"), wrap("ref-map", "map(&", ", $.one)[0]"), wrap("cond-filter", "$.one[?", "]"),
		wrap("rhs-projection", "$.one[*].[", "][0]"), wrap("rhs-flatten", "$.one[].[", "][0]"), wrap("let-binding", "let $y = ", " in [$y, $y][0]"),
		wrap("arg-contains", "contains($.one, ", ") || @"), wrap("arg-zip", "zip($.one, to_array(", "))[0][1]"),
		// idioms that implementations fuse (lookup = filter | [0], first / last /
		// count of a filtered, projected, sorted or reversed array), each one
		// the source of the next; the lookups miss, hit, or hit once and
		// then miss
		wrap("lookup-miss-num", "(", ".v[?k == `9`] | [0])"), wrap("lookup-miss-str", "(", ".v[?k == 'x'] | [0])"), wrap("lookup-hit-then-miss", "(", ".a[?k == `0`] | [0])"),
		wrap("lookup-last", "(", ".v[?k != `9`] | [-1])"), wrap("filter-count", "(", ".v[?k == `9`] | length(@))"), wrap("liststar-first", "(", ".v[*] | [0])"), wrap("flatten-first", "(", ".v[] | [0])"),
		wrap("reverse-first", "(", ".v[::-1] | [0])"), wrap("sort_by-first", "(sort_by(", ".v, &k) | [0])"), wrap("values-first", "(", ".* | [0])"), wrap("lookup-field", "(", ".v[?k == `1`] | [0].v)"),
		wrap("not_null-first", "(not_null(", ".v, `[]`) | [0])"), wrap("lookup-index", "(", ".v[?k == `9`][0])"), wrap("lookup-or", "(", ".v[?k == `9`] | [0] || @)"),
		// nesting in the data: two equal values nested n levels deep (a chain
		// of single-member objects, of one-element arrays, or alternating),
		// O(n) nodes each; every operation that walks them must stay polynomial
		dataNest("eq-objects", "a == b", 0), dataNest("ne-objects", "a != b", 0), dataNest("eq-arrays", "a == b", 1), dataNest("eq-mixed", "a == b", 2),
		dataNest("contains", "contains([a, `1`], b)", 0), dataNest("eq-in-list", "[a, a] == [b, b]", 2), dataNest("eq-in-hash", "{x: a, y: b} == {x: b, y: a}", 0),
		dataNest("to_string", "to_string(a) == to_string(b)", 2), dataNest("merge", "merge(a, b) == a", 0), dataNest("filter-eq", "[a, b][?@ == $.a]", 2),
		dataNest("sort_by-to_string", "sort_by([a, b], &to_string(@))[0] == b", 0), dataNest("group_by", "length(group_by([a, b, a], &to_string(@)))", 1),
		dataNest("flatten", "a[] == b[]", 1), dataNest("values", "values(a) == values(b)", 0), dataNest("not_null-eq", "not_null(a) == not_null(b) && a == a", 2),
	}
}()

func bestOf(k int, text string, node run.Node) (time.Duration, string) {
	best := time.Duration(1 << 62)
	for i := 0; i < k; i++ {
		data := node.Build()
		var o run.Outcome
		el := run.CPUTimed(func() { o = run.Search(text, data) })
		if o.Panic != "" {
			return 0, "panic: " + o.Panic
		}
		if el < best {
			best = el
		}
	}
	return best, ""
}

// c09Scaling: doubling the size must not multiply the time by more than 6
// (plus slack): quadratic cost passes, cubic and exponential do not.
func c09Scaling(f family, sizes []int) string {
	var prev time.Duration
	for i, n := range sizes {
		text, node := f.mk(n)
		el, msg := bestOf(3, text, node)
		if msg != "" {
			return fmt.Sprintf("%s at size %d: %s", f.name, n, msg)
		}
		if el > 20*time.Second {
			return fmt.Sprintf("%s at size %d took %v", f.name, n, el)
		}
		if i > 0 && el > 6*prev+100*time.Millisecond {
			// confirm once more with fresh measurements of both sizes
			t0, n0 := f.mk(sizes[i-1])
			p2, _ := bestOf(3, t0, n0)
			e2, _ := bestOf(3, text, node)
			if e2 > 6*p2+100*time.Millisecond {
				return fmt.Sprintf("%s: size %d takes %v, size %d takes %v (more than 6x + 100ms; confirmed %v -> %v)", f.name, sizes[i-1], prev, n, el, p2, e2)
			}
		}
		prev = el
	}
	return ""
}

// C09 (scaling): cost grows polynomially with the size of expression and data.
func TestC09_Scaling(t *testing.T) {
	c := collector("C09", "scaling")
	sizes := []int{2500, 5000, 10000}
	if thorough() {
		sizes = []int{10000, 20000, 40000}
	}
	shard, _ := strconv.Atoi(getenv("VERIF_SHARD", "0"))
	nshards, _ := strconv.Atoi(getenv("VERIF_NSHARDS", "1"))
	depths := []int{25, 50, 100}
	if thorough() {
		depths = []int{50, 100, 200}
	}
	all := append(append([]family{}, families...), nestFamilies...)
	for i, f := range all {
		if i%nshards != shard {
			continue
		}
		sizes := sizes
		if strings.HasPrefix(f.name, "nest:") {
			sizes = depths
		}
		c.Cases(len(sizes))
		call := run.Call{API: "search", Expr: "family:" + f.name}
		run.WatchAs(c, "scaling", "custom:c09-scaling", mustJSON(map[string]any{"sizes": sizes}), call)
		if msg := c09Scaling(f, sizes); msg != "" {
			c.Fail(t, run.Replay{Check: "scaling", Kind: "custom:c09-scaling", Calls: []run.Call{call}, Message: msg, Extra: mustJSON(map[string]any{"sizes": sizes})}, f.name)
			return
		}
		c.NonTrivial(f.name+fmt.Sprint(sizes), func() any { return map[string]any{"family": f.name, "sizes": sizes} })
	}
}

func init() {
	customReplays["custom:c09"] = func(r run.Replay) string {
		if len(r.Calls) == 0 || r.Calls[0].Doc == nil {
			return "malformed replay"
		}
		return c09Verdict(r.Calls[0].Expr, *r.Calls[0].Doc)
	}
	customReplays["bounded"] = func(r run.Replay) string {
		// re-run under the same heap watchdog; a quick return means the defect is gone
		for _, call := range r.Calls {
			if call.Doc == nil {
				continue
			}
			if msg := c09Verdict(call.Expr, *call.Doc); msg != "" {
				return msg
			}
		}
		return ""
	}
	customReplays["custom:c09-scaling"] = func(r run.Replay) string {
		var ex struct {
			Sizes []int `json:"sizes"`
		}
		if err := jsonUnmarshal(r.Extra, &ex); err != nil || len(r.Calls) == 0 {
			return "malformed replay"
		}
		name := strings.TrimPrefix(r.Calls[0].Expr, "family:")
		for _, f := range append(append([]family{}, families...), nestFamilies...) {
			if f.name == name {
				return c09Scaling(f, ex.Sizes)
			}
		}
		return "unknown family " + name
	}
	_ = model.Syntax
}
