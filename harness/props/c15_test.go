package props

import (
	"fmt"
	"os"
	"path/filepath"
	"strings"
	"sync"
	"testing"

	"pgregory.net/rapid"

	"verif/harness/ast"
	"verif/harness/gen"
	"verif/harness/jv"
	"verif/harness/model"
	"verif/harness/run"
)

// shuffled returns the description with object members in a drawn insertion
// order and a drawn capacity hint.
func shuffled(t *rapid.T, n run.Node) run.Node {
	switch n.T {
	case "array":
		a := make([]run.Node, len(n.A))
		for i, e := range n.A {
			a[i] = shuffled(t, e)
		}
		n.A = a
	case "object":
		idx := rapid.Permutation(seq(len(n.A))).Draw(t, "order")
		a := make([]run.Node, len(n.A))
		k := make([]string, len(n.A))
		for i, j := range idx {
			a[i] = shuffled(t, n.A[j])
			k[i] = n.K[j]
		}
		n.A, n.K = a, k
		n.Cap = rapid.IntRange(0, 9).Draw(t, "mapcap")
	}
	return n
}

func seq(n int) []int {
	s := make([]int, n)
	for i := range s {
		s[i] = i
	}
	return s
}

var (
	digestMu   sync.Mutex
	digestFile *os.File
)

// digest records one line per case for the cross-process comparison.
func digest(line string) {
	dir := os.Getenv("VERIF_OUT_DIR")
	if dir == "" || os.Getenv("VERIF_PASS") == "" {
		return
	}
	digestMu.Lock()
	defer digestMu.Unlock()
	if digestFile == nil {
		f, err := os.Create(filepath.Join(dir, fmt.Sprintf("digest-s%s-p%s.txt", getenv("VERIF_SHARD", "0"), os.Getenv("VERIF_PASS"))))
		if err != nil {
			return
		}
		digestFile = f
	}
	fmt.Fprintln(digestFile, line)
}

// c15Run evaluates text on every build of the document `reps` times, with a
// fresh compilation each time, and checks that all outcomes agree.
func c15Run(text string, builds []run.Node, reps int, loose, multi bool) (string, run.Outcome) {
	var first run.Outcome
	have := false
	for bi, b := range builds {
		for r := 0; r < reps; r++ {
			var o run.Outcome
			if r%2 == 0 {
				o = run.Search(text, b.Build())
			} else {
				e, co := run.Compile(text)
				if e == nil {
					o = co
				} else {
					o = run.ExprSearch(e, b.Build())
				}
			}
			if o.Panic != "" {
				return "panic: " + o.Panic, o
			}
			if !have {
				first, have = o, true
				continue
			}
			if msg := run.SameOutcomeMF(first, o, loose, multi); msg != "" {
				return fmt.Sprintf("evaluation %d on build %d differs from the first evaluation: %s", r, bi, msg), first
			}
		}
	}
	return "", first
}

// C15: evaluation is deterministic apart from object member order.
func TestC15_Determinism(t *testing.T) {
	c := collector("C15", "determinism")
	check(t, func(t *rapid.T) {
		doc := gen.Doc(t, gen.DocCfg{MaxDepth: 3, MaxFan: 4})
		cfg := gen.ExprCfg{MaxDepth: 2, MaxSteps: 4, Funcs: true, Let: true, Arith: true, Compare: true}
		g := &gen.G{T: t, Root: doc, Cfg: cfg}
		var e ast.Expr
		switch rapid.IntRange(0, 5).Draw(t, "kind") {
		case 5:
			// comparison of two objects (or arrays of objects) that share some
			// members by reference and differ, or not, in others: the member
			// loop of the comparison runs in map order
			shared := ast.Expr(ast.Cur())
			if oc := objectChain(t, doc); oc != nil && rapid.Bool().Draw(t, "sharedobj") {
				shared = oc
			}
			mk := func(label string) ast.Expr {
				keys := []string{"a", "b", "c", "d"}
				items := make([]ast.Expr, len(keys))
				for i := range items {
					switch rapid.IntRange(0, 3).Draw(t, label+"-member") {
					case 0, 1:
						items[i] = shared
					case 2:
						items[i] = ast.Lit(jv.VInt(int64(i)))
					default:
						items[i] = g.Chain(doc, 1)
					}
				}
				return &ast.Chain{Head: ast.Head{Kind: ast.HMultiHash, Keys: keys, Items: items}}
			}
			l, r := mk("left"), mk("right")
			switch rapid.IntRange(0, 4).Draw(t, "cmpform") {
			case 0:
				e = ast.Bin("==", l, r)
			case 1:
				e = ast.Bin("!=", l, r)
			case 2:
				e = ast.Call("contains", ast.A(&ast.Chain{Head: ast.Head{Kind: ast.HMultiList, Items: []ast.Expr{l, ast.Lit(jv.VNull())}}}), ast.A(r))
			case 3:
				e = ast.Bin("==", ast.Call("merge", ast.A(l), ast.A(ast.Lit(jv.VObj([]jv.Member{{K: "d", V: jv.VInt(3)}})))), r)
			default:
				e = ast.Bin("==", &ast.Chain{Head: ast.Head{Kind: ast.HMultiList, Items: []ast.Expr{l, r}}}, &ast.Chain{Head: ast.Head{Kind: ast.HMultiList, Items: []ast.Expr{r, l}}})
			}
		case 0: // constructs that iterate Go maps inside the library
			items := []ast.Expr{g.Expr(doc, 1), g.Expr(doc, 1), g.Expr(doc, 1)}
			e = &ast.Chain{Head: ast.Head{Kind: ast.HMultiHash, Keys: []string{"a", "b", "c"}, Items: items}}
		case 1:
			e = &ast.Let{Names: []string{"x", "y", "z"}, Vals: []ast.Expr{g.Expr(doc, 1), g.Expr(doc, 1), ast.Var("x")}, Body: &ast.Chain{Head: ast.Head{Kind: ast.HMultiList, Items: []ast.Expr{ast.Var("x"), ast.Var("y"), g.Expr(doc, 1)}}}}
			e = &ast.Let{Names: []string{"x"}, Vals: []ast.Expr{ast.Lit(jv.VStr("outer"))}, Body: e}
		case 2:
			e = ast.Call("merge", ast.A(g.Chain(doc, 1)), ast.A(g.Chain(doc, 1)), ast.A(ast.Lit(jv.VObj([]jv.Member{{K: "a", V: jv.VInt(1)}, {K: "b", V: jv.VInt(2)}}))))
		default:
			e = g.Expr(doc, 0)
		}
		text := ast.Render(e)
		c.Case()
		if model.Static(e).RefAtValue && kfOpen("expref-at-value-position") {
			c.Exclude("expref-at-value-position")
			return
		}
		res, _ := model.Eval(e, doc)
		loose := enumeratesMembers(e)
		if loose && res.Undet != "" {
			c.Skip(res.Undet)
			return
		}
		multi := res.Undet != "" || res.Err.Count() > 1
		base := run.FromVal(doc)
		builds := make([]run.Node, 4)
		for i := range builds {
			builds[i] = shuffled(t, base)
		}
		run.Watch(c, "determinism", run.Call{API: "search", Expr: text, Doc: &builds[0]})
		msg, first := c15Run(text, builds, 8, loose, multi)
		if msg != "" {
			c.Fail(t, run.Replay{Check: "determinism", Kind: "custom:c15", Calls: []run.Call{{API: "search", Expr: text, Doc: &builds[0]}}, Loose: loose, Message: msg,
				Extra: mustJSON(map[string]any{"builds": builds, "multi_fault": multi})}, ast.Shape(e))
			return
		}
		// also against the model where it is determined
		if res.Undet == "" {
			if m := run.CheckAgainst(res, first); m != "" {
				node := run.FromVal(doc)
				exp := &run.Expect{}
				if res.Err != 0 {
					exp.Errors = res.Err.Names()
				} else {
					exp.Value = &run.EncVal{V: res.V}
				}
				c.Fail(t, run.Replay{Check: "determinism-model", Kind: "expect", Calls: []run.Call{{API: "search", Expr: text, Doc: &node}}, Expect: exp, Message: m}, "model:"+ast.Shape(e))
				return
			}
		}
		// one line per case for the cross-process comparison: strict cases only
		if !loose && !multi {
			digest(fmt.Sprintf("%016x %016x %s", run.Hash(text+"\x00"+doc.JSON()), run.Hash(outcomeKey(first)), strings.ReplaceAll(truncate(text, 120), "\n", " ")))
		}
		c.Label("ok")
		iterates := false
		ast.Walk(e, func(x ast.Expr) {
			switch x := x.(type) {
			case *ast.Let:
				if len(x.Names) >= 2 {
					iterates = true
				}
			case *ast.Chain:
				if x.Head.Kind == ast.HMultiHash && len(x.Head.Keys) >= 2 {
					iterates = true
				}
				if x.Head.Kind == ast.HCall && (x.Head.Name == "merge" || x.Head.Name == "group_by" || x.Head.Name == "keys" || x.Head.Name == "values" || x.Head.Name == "items") {
					iterates = true
				}
				for _, s := range x.Steps {
					if s.Kind == ast.SStar || (s.Kind == ast.SMultiHash && len(s.Keys) >= 2) {
						iterates = true
					}
				}
			}
		})
		if iterates {
			c.NonTrivial(text+"\x00"+doc.JSON(), func() any {
				return map[string]any{"expr": text, "doc": truncate(doc.JSON(), 200), "outcome": truncate(first.String(), 200), "evaluations": 32}
			})
		}
	})
}

// outcomeKey identifies an outcome up to what C15 lets vary (error messages
// may differ when several sub-expressions fail with the same category).
func outcomeKey(o run.Outcome) string {
	if o.Failed {
		return "error " + strings.Join(o.Cats.Names(), ",")
	}
	return "value " + jv.Canon(o.Val, false)
}

func init() {
	customReplays["custom:c15"] = func(r run.Replay) string {
		var ex struct {
			Builds []run.Node `json:"builds"`
			Multi  bool       `json:"multi_fault"`
		}
		if err := jsonUnmarshal(r.Extra, &ex); err != nil || len(r.Calls) == 0 {
			return "malformed replay"
		}
		// repeat more often than the original run: the failure is probabilistic
		for i := 0; i < 20; i++ {
			if msg, _ := c15Run(r.Calls[0].Expr, ex.Builds, 8, r.Loose, ex.Multi); msg != "" {
				return msg
			}
		}
		return ""
	}
}

// c15HistoryRun evaluates the calls in the order given by each schedule and
// checks that every evaluation of call i has the same outcome as its first.
func c15HistoryRun(calls []run.Call, schedules [][]int, loose, multi []bool) string {
	first := make([]*run.Outcome, len(calls))
	step := 0
	for si, sch := range schedules {
		for _, i := range sch {
			step++
			var o run.Outcome
			if (si+i)%2 == 0 {
				o = run.Search(calls[i].Expr, calls[i].Doc.Build())
			} else if e, co := run.Compile(calls[i].Expr); e == nil {
				o = co
			} else {
				o = run.ExprSearch(e, calls[i].Doc.Build())
			}
			if o.Panic != "" {
				return "panic: " + o.Panic
			}
			if first[i] == nil {
				first[i] = &o
				if pr := ast.Parse(calls[i].Expr); pr.Verdict == ast.Out && !staticPreemptShape(calls[i].Expr) && !(o.Failed && o.Cats&model.Syntax != 0) {
					return fmt.Sprintf("step %d: expression %d (%q) is not in the grammar (%s) but the outcome is %s", step, i, truncate(calls[i].Expr, 120), pr.Reason, o)
				}
				continue
			}
			if msg := run.SameOutcomeMF(*first[i], o, loose[i], multi[i]); msg != "" {
				return fmt.Sprintf("step %d: expression %d (%s) evaluated after other expressions differs from its first evaluation: %s", step, i, truncate(calls[i].Expr, 120), msg)
			}
		}
	}
	return ""
}

// C15 (history): what was evaluated before -- other expressions, failing
// ones in particular -- does not influence the outcome of an evaluation.
func TestC15_History(t *testing.T) {
	c := collector("C15", "history")
	check(t, func(t *rapid.T) {
		n := rapid.IntRange(2, 5).Draw(t, "nexpr")
		calls := make([]run.Call, n)
		loose := make([]bool, n)
		multi := make([]bool, n)
		fails, lets := 0, 0
		key := ""
		for i := range calls {
			var e ast.Expr
			var doc jv.Val
			switch rapid.IntRange(0, 4).Draw(t, "kind") {
			case 4:
				// string functions over strings that are easily confused with one
				// another once decoded (invalid bytes and U+FFFD all decode to
				// utf8.RuneError): whatever the library remembers between calls
				// must not be keyed by something that merges them
				hs := func(label string) jv.Val {
					return jv.VStr(gen.Pick(t, label, []string{"\xff", "\xfe", "\x80", "\xc3", "\ufffd", "\ufffd\ufffd", "\xe2\x82", "\xef\xbf", "é", "a", "ab", "", "日", "\x00", " ", "\u00a0"}))
				}
				doc = jv.VObj([]jv.Member{{K: "s", V: hs("hs")}, {K: "p", V: hs("hp")}, {K: "q", V: hs("hq")}})
				pr := ast.Parse(gen.Pick(t, "hostilecall", []string{"pad_left(s, `4`, p)", "pad_right(s, `3`, p)", "pad_left(q, `6`, p)", "replace(s, p, q)", "split(s, p)", "join(p, [s, q])", "trim(s, p)", "trim_left(s, p)",
					"find_first(s, p)", "find_last(s, p)", "contains(s, p)", "starts_with(s, p)", "ends_with(s, p)", "reverse(s)", "upper(s)", "lower(s)", "s[::-1]", "s[::2]", "length(s)", "[s, p] == [p, s]", "sort([s, p, q])",
					"to_string(s)", "max([s, p])", "sort_by([s, p, q], &@)", "group_by([s, p, q], &@)", "{a: s, b: p}", "s < p", "to_array(s)[0] == p", "from_items([[s, p], [p, q]])", "keys(from_items([[s, `1`], [p, `2`]]))"}))
				if pr.Verdict != ast.In {
					t.Fatalf("HARNESS-BUG: palette expression does not parse: %s", pr.Reason)
				}
				e = pr.Expr
			case 0:
				doc = gen.Doc(t, gen.DocCfg{MaxDepth: 3, MaxFan: 3})
				g := &gen.G{T: t, Root: doc, Cfg: fullCfg()}
				e = g.Expr(doc, 0)
			default:
				doc = c19Doc(t)
				lg := &letGen{t: t, doc: doc}
				e = lg.let(0)
				if rapid.IntRange(0, 3).Draw(t, "failing") == 0 {
					// a let whose body fails at run time after its bindings were made
					e = &ast.Let{Names: []string{gen.Pick(t, "fname", []string{"x", "y", "z", "q"})}, Vals: []ast.Expr{ast.Lit(jv.VStr("stale"))},
						Body: &ast.Chain{Head: ast.Head{Kind: ast.HMultiList, Items: []ast.Expr{e, ast.Call("abs", ast.A(ast.RawS("s")))}}}}
				}
			}
			if model.Static(e).RefAtValue && kfOpen("expref-at-value-position") {
				c.Case()
				c.Exclude("expref-at-value-position")
				return
			}
			res, _ := model.Eval(e, doc)
			loose[i] = enumeratesMembers(e)
			if loose[i] && res.Undet != "" {
				c.Case()
				c.Skip(res.Undet)
				return
			}
			multi[i] = res.Undet != "" || res.Err.Count() > 1
			if res.Err != 0 {
				fails++
			}
			if len(collectLets(e)) > 0 {
				lets++
			}
			node := run.FromVal(doc)
			calls[i] = run.Call{API: "search", Expr: ast.Render(e), Doc: &node}
			key += calls[i].Expr + "\x00" + doc.JSON() + "\x00"
		}
		// near-duplicates: the text of one of the expressions with a character
		// put before or after it. Blank, tab, CR and LF are insignificant
		// there; every other character makes the text a different (invalid)
		// expression, whatever was evaluated before
		for k := rapid.IntRange(0, 2).Draw(t, "nvariants"); k > 0; k-- {
			i := rapid.IntRange(0, n-1).Draw(t, "variantof")
			ws := gen.Pick(t, "oddws", []string{" ", "\t", "\n", "\r", "\v", "\f", "\u00a0", "\u0085", "\u2028", "\u2029", "\u3000", "\u1680", "\u2003", "\ufeff", "\u200b", "\x00", "\x1f", "\x7f"})
			text := calls[i].Expr + ws
			if rapid.Bool().Draw(t, "leading") {
				text = ws + calls[i].Expr
			}
			calls = append(calls, run.Call{API: "search", Expr: text, Doc: calls[i].Doc})
			loose = append(loose, loose[i])
			multi = append(multi, multi[i])
			key += text + "\x00"
		}
		n = len(calls)
		nsch := rapid.IntRange(2, 4).Draw(t, "nschedules")
		schedules := make([][]int, nsch)
		for i := range schedules {
			schedules[i] = rapid.Permutation(seq(n)).Draw(t, "schedule")
		}
		c.Case()
		run.Watch(c, "history", calls...)
		if msg := c15HistoryRun(calls, schedules, loose, multi); msg != "" {
			c.Fail(t, run.Replay{Check: "history", Kind: "custom:c15-history", Calls: calls, Message: msg,
				Extra: mustJSON(map[string]any{"schedules": schedules, "loose": loose, "multi_fault": multi})}, "history")
			return
		}
		c.Label("ok")
		if fails > 0 && lets > 1 {
			c.NonTrivial(key, func() any {
				texts := make([]string, n)
				for i := range calls {
					texts[i] = truncate(calls[i].Expr, 160)
				}
				return map[string]any{"expressions": texts, "schedules": schedules, "failing_expressions": fails}
			})
		}
	})
}

func init() {
	customReplays["custom:c15-history"] = func(r run.Replay) string {
		var ex struct {
			Schedules [][]int `json:"schedules"`
			Loose     []bool  `json:"loose"`
			Multi     []bool  `json:"multi_fault"`
		}
		if err := jsonUnmarshal(r.Extra, &ex); err != nil || len(ex.Loose) != len(r.Calls) || len(ex.Multi) != len(r.Calls) {
			return "malformed replay"
		}
		for _, c := range r.Calls {
			if c.Doc == nil {
				return "malformed replay"
			}
		}
		for i := 0; i < 5; i++ {
			if msg := c15HistoryRun(r.Calls, ex.Schedules, ex.Loose, ex.Multi); msg != "" {
				return msg
			}
		}
		return ""
	}
}
