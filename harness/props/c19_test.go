package props

import (
	"fmt"
	"strconv"
	"testing"

	"pgregory.net/rapid"

	"verif/harness/ast"
	"verif/harness/gen"
	"verif/harness/jv"
	"verif/harness/model"
	"verif/harness/run"
)

// letGen generates let-heavy expressions: nested lets with shadowing, several
// bindings per let, variable uses under every context-changing construct.
type letGen struct {
	t    *rapid.T
	doc  jv.Val
	vars []string // names in scope (innermost last)
}

var letNames = []string{"x", "y", "x", "z"}

func (l *letGen) field() ast.Expr {
	return ast.F(gen.Pick(l.t, "field", []string{"a", "b", "n", "s", "o"}))
}

// value draws a binding value / leaf expression.
func (l *letGen) value(depth int) ast.Expr {
	t := l.t
	switch rapid.IntRange(0, 10).Draw(t, "valkind") {
	case 8, 9:
		// a value that reads the current node without naming it: a bare index,
		// slice, wildcard, multi-select or filter (a let is re-evaluated for
		// every element of a projection, and such bindings change with it)
		return &ast.Chain{Head: ast.Head{Kind: ast.HImplicit}, Steps: gen.Pick(t, "implicitval", [][]ast.Step{
			{{Kind: ast.SIndex, Index: 0}}, {{Kind: ast.SIndex, Index: 1}}, {{Kind: ast.SIndex, Index: -1}}, {{Kind: ast.SIndex, Index: 0}, {Kind: ast.SIndex, Index: 0}}, {{Kind: ast.SIndex, Index: 255}}, {{Kind: ast.SIndex, Index: 256}},
			{{Kind: ast.SSlice, Start: ast.I64(1)}}, {{Kind: ast.SSlice, Stop: ast.I64(1)}}, {{Kind: ast.SListStar}}, {{Kind: ast.SFlatten}}, {{Kind: ast.SStar}}, {{Kind: ast.SFilter, Cond: ast.Cur()}},
			{{Kind: ast.SIndex, Index: 0}, {Kind: ast.SField, Name: "id"}}, {{Kind: ast.SIndex, Index: 0}, {Kind: ast.SMultiList, Items: []ast.Expr{ast.F("id")}}}, {{Kind: ast.SListStar}, {Kind: ast.SMultiHash, Keys: []string{"k"}, Items: []ast.Expr{ast.F("s")}}},
		})}
	case 10:
		return ast.Call(gen.Pick(t, "curfn", []string{"length", "type", "to_array", "not_null", "to_string"}), ast.A(gen.Pick(t, "curarg", []ast.Expr{ast.Cur(), &ast.Chain{Head: ast.Head{Kind: ast.HImplicit}, Steps: []ast.Step{{Kind: ast.SIndex, Index: 0}}}, ast.F("id")})))
	case 0:
		return ast.Lit(gen.Scalar(t))
	case 1:
		return ast.Cur()
	case 2:
		if len(l.vars) > 0 {
			return ast.Var(gen.Pick(t, "usevar", l.vars))
		}
	case 3:
		if depth < 3 {
			return l.let(depth + 1)
		}
	case 4:
		if rapid.IntRange(0, 3).Draw(t, "freevar") == 0 {
			return ast.Var(gen.Pick(t, "anyvar", []string{"x", "y", "z", "q"}))
		}
	}
	return l.field()
}

// use draws an expression that reads variables under a construct that changes
// the current node.
func (l *letGen) use(depth int) ast.Expr {
	t := l.t
	v := func() ast.Expr {
		if len(l.vars) > 0 && rapid.IntRange(0, 14).Draw(t, "bound") > 0 {
			return ast.Var(gen.Pick(t, "usevar", l.vars))
		}
		return ast.Var(gen.Pick(t, "anyvar", []string{"x", "y", "z", "q"}))
	}
	inner := func() ast.Expr {
		if depth < 3 && rapid.IntRange(0, 2).Draw(t, "nest") == 0 {
			return l.let(depth + 1)
		}
		return v()
	}
	pair := func(x ast.Expr) ast.Step { return ast.Step{Kind: ast.SMultiList, Items: []ast.Expr{x, ast.Cur()}} }
	switch rapid.IntRange(0, 14).Draw(t, "usekind") {
	case 12: // selectors continuing a slice of a string (no projection) or of an array (projection)
		sl := ast.Step{Kind: ast.SSlice, Start: ast.I64(0), Stop: ast.I64(int64(rapid.IntRange(1, 3).Draw(t, "slstop")))}
		if rapid.Bool().Draw(t, "slstep") {
			sl.Stride = ast.I64(int64(gen.Pick(t, "slstride", []int{1, 2, -1})))
		}
		return ast.F(gen.Pick(t, "slsubject", []string{"s", "s", "a"})).With(sl, pair(inner()))
	case 13: // a call step after a slice / index / flatten
		before := gen.Pick(t, "callafter", []ast.Step{{Kind: ast.SSlice, Stop: ast.I64(2)}, {Kind: ast.SIndex, Index: 0}, {Kind: ast.SFlatten}, {Kind: ast.SListStar}})
		return ast.F(gen.Pick(t, "callsubject", []string{"s", "a", "aa"})).With(before, ast.Step{Kind: ast.SCall, Name: "not_null", Args: []ast.Arg{ast.A(inner()), ast.A(ast.Cur())}})
	case 0:
		return inner()
	case 1: // projection (over scalars, arrays or records)
		return ast.F(gen.Pick(t, "projsubject", []string{"a", "aa", "r", "aa"})).With(ast.Step{Kind: ast.SListStar}, pair(inner()))
	case 2: // filter
		return ast.F(gen.Pick(t, "filtsubject", []string{"a", "aa", "r"})).With(ast.Step{Kind: ast.SFilter, Cond: ast.Bin("==", ast.Cur(), inner())})
	case 3: // pipe
		return ast.Bin("|", l.field(), &ast.Chain{Head: ast.Head{Kind: ast.HMultiList, Items: []ast.Expr{inner(), ast.Cur()}}})
	case 4: // multi-select hash after a field
		return ast.F("o").With(ast.Step{Kind: ast.SMultiHash, Keys: []string{"k", "c"}, Items: []ast.Expr{inner(), ast.Cur()}})
	case 5: // map expression reference
		return ast.Call("map", ast.Ref(&ast.Chain{Head: ast.Head{Kind: ast.HMultiList, Items: []ast.Expr{inner(), ast.Cur()}}}), ast.A(ast.F(gen.Pick(t, "mapsubject", []string{"a", "aa", "r"}))))
	case 6: // sort_by / min_by / max_by / group_by / map with a key that reads the variable for every element
		key := (&ast.Chain{Head: ast.Head{Kind: ast.HMultiList, Items: []ast.Expr{ast.F("s"), inner()}}}).With(ast.Step{Kind: ast.SIndex, Index: 0})
		fn := gen.Pick(t, "byfn", []string{"sort_by", "min_by", "max_by", "group_by", "map"})
		if fn == "map" {
			return ast.Call("map", ast.Ref(key), ast.A(ast.F("r")))
		}
		if rapid.Bool().Draw(t, "numkey") && fn != "group_by" {
			key = (&ast.Chain{Head: ast.Head{Kind: ast.HMultiList, Items: []ast.Expr{ast.F("id"), inner()}}}).With(ast.Step{Kind: ast.SIndex, Index: 0})
		}
		return ast.Call(fn, ast.A(ast.F("r")), ast.Ref(key))
	case 7: // object wildcard projection
		return ast.F("o").With(ast.Step{Kind: ast.SStar}, pair(inner()))
	case 8: // flatten + filter inside
		return ast.F("aa").With(ast.Step{Kind: ast.SFlatten}, ast.Step{Kind: ast.SFilter, Cond: ast.Bin("!=", ast.Cur(), inner())})
	case 9: // boolean / comparison
		return ast.Bin(gen.Pick(t, "bop", []string{"||", "&&", "==", "!="}), inner(), l.value(depth))
	case 10: // max_by / group_by
		return ast.Call("max_by", ast.A(ast.F("r")), ast.Ref(ast.Call("not_null", ast.A(inner()), ast.A(ast.F("k")))))
	}
	return &ast.Chain{Head: ast.Head{Kind: ast.HMultiList, Items: []ast.Expr{inner(), l.use(depth + 1)}}}
}

// wide draws lets with many distinct names: one let with up to 40 bindings,
// or a tower of up to 40 nested single-binding lets, followed by the usual
// small lets, whose bodies read some of the many names (scope tables that
// switch representation at a size, or are flattened, show here).
func (l *letGen) wide() ast.Expr {
	t := l.t
	n := gen.Pick(t, "widen", []int{4, 5, 8, 9, 16, 17, 18, 33, 40})
	tower := rapid.Bool().Draw(t, "tower")
	distinct := n
	if tower {
		// towers may be much taller than a single let is wide, and may bind a
		// name again further in (the innermost binding wins)
		n = gen.Pick(t, "towern", []int{9, 17, 19, 33, 40, 63, 64, 65, 66, 129, 130})
		distinct = n
		if rapid.Bool().Draw(t, "rebinding") {
			distinct = rapid.IntRange(1, n).Draw(t, "distinctnames")
		}
	}
	names := make([]string, n)
	vals := make([]ast.Expr, n)
	for i := range names {
		names[i] = "v" + strconv.Itoa(i%distinct)
		vals[i] = ast.Lit(jv.VInt(int64(100 + i)))
		if i%5 == 4 {
			vals[i] = l.field()
		}
	}
	// some bindings of a wide let read a name that a sibling binding of the
	// same let binds: they see the enclosing scope (an outer let that binds
	// the first few names, or nothing: undefined), never the sibling
	siblingReads := !tower && rapid.Bool().Draw(t, "siblingreads")
	outer := siblingReads && rapid.IntRange(0, 3).Draw(t, "outerbinds") > 0
	if siblingReads {
		for i := range vals {
			if rapid.IntRange(0, 3).Draw(t, "readsibling") == 0 {
				j := rapid.IntRange(0, minInt(n, 4)-1).Draw(t, "sibling")
				vals[i] = ast.Var(names[j])
				if rapid.IntRange(0, 3).Draw(t, "siblinginlist") == 0 {
					vals[i] = &ast.Chain{Head: ast.Head{Kind: ast.HMultiList, Items: []ast.Expr{ast.Var(names[j]), ast.Lit(jv.VInt(int64(i)))}}}
				}
			}
		}
	}
	reads := func() ast.Expr {
		items := []ast.Expr{}
		for k := rapid.IntRange(1, 4).Draw(t, "nreads"); k > 0; k-- {
			items = append(items, ast.Var(gen.Pick(t, "wideread", names)))
		}
		return &ast.Chain{Head: ast.Head{Kind: ast.HMultiList, Items: items}}
	}
	saved := len(l.vars)
	l.vars = append(l.vars, names...)
	// one or two ordinary lets inside, then the reads
	var body ast.Expr = &ast.Chain{Head: ast.Head{Kind: ast.HMultiList, Items: []ast.Expr{reads(), l.let(2), reads()}}}
	for k := rapid.IntRange(0, 2).Draw(t, "between"); k > 0; k-- {
		body = &ast.Let{Names: []string{gen.Pick(t, "midname", []string{"x", "y", "v0", "v3"})}, Vals: []ast.Expr{l.value(3)}, Body: body}
	}
	l.vars = l.vars[:saved]
	if tower {
		for i := n - 1; i >= 0; i-- {
			body = &ast.Let{Names: names[i : i+1], Vals: vals[i : i+1], Body: body}
		}
		return body
	}
	var whole ast.Expr = &ast.Let{Names: names, Vals: vals, Body: body}
	if outer {
		k := minInt(n, 4)
		ovals := make([]ast.Expr, k)
		for i := range ovals {
			ovals[i] = ast.Lit(jv.VStr("outer" + strconv.Itoa(i)))
		}
		whole = &ast.Let{Names: names[:k], Vals: ovals, Body: whole}
	}
	return whole
}

func (l *letGen) let(depth int) ast.Expr {
	t := l.t
	if depth == 0 && rapid.IntRange(0, 15).Draw(t, "wide") == 0 {
		return l.wide()
	}
	n := rapid.IntRange(1, 3).Draw(t, "nbind")
	le := &ast.Let{}
	seen := map[string]bool{}
	for i := 0; i < n; i++ {
		name := gen.Pick(t, "name", letNames)
		if seen[name] {
			continue
		}
		seen[name] = true
		le.Names = append(le.Names, name)
		// binding values see the outer scope only (also for a name being rebound)
		var val ast.Expr
		if rapid.IntRange(0, 3).Draw(t, "bindkind") == 0 {
			val = l.use(depth + 1)
		} else {
			val = l.value(depth + 1)
		}
		le.Vals = append(le.Vals, val)
	}
	saved := len(l.vars)
	l.vars = append(l.vars, le.Names...)
	if depth < 3 && rapid.IntRange(0, 2).Draw(t, "bodykind") == 0 {
		le.Body = &ast.Chain{Head: ast.Head{Kind: ast.HMultiList, Items: []ast.Expr{l.use(depth + 1), l.use(depth + 1)}}}
	} else {
		le.Body = l.use(depth + 1)
	}
	l.vars = l.vars[:saved]
	return le
}

// renameBound renames the variable `from` bound by the let `target` to `to`
// (a fresh name): the binder and every reference that resolves to it.
func renameBound(e ast.Expr, target *ast.Let, from, to string) ast.Expr {
	var rn func(e ast.Expr, active bool) ast.Expr
	rnArgs := func(as []ast.Arg, active bool) []ast.Arg {
		out := make([]ast.Arg, len(as))
		for i, a := range as {
			out[i] = ast.Arg{Ref: a.Ref, X: rn(a.X, active)}
		}
		return out
	}
	rnList := func(xs []ast.Expr, active bool) []ast.Expr {
		if xs == nil {
			return nil
		}
		out := make([]ast.Expr, len(xs))
		for i, x := range xs {
			out[i] = rn(x, active)
		}
		return out
	}
	rn = func(e ast.Expr, active bool) ast.Expr {
		switch e := e.(type) {
		case *ast.Binary:
			return &ast.Binary{Op: e.Op, L: rn(e.L, active), R: rn(e.R, active)}
		case *ast.Unary:
			return &ast.Unary{Op: e.Op, X: rn(e.X, active)}
		case *ast.Let:
			n := &ast.Let{Names: append([]string{}, e.Names...)}
			for _, v := range e.Vals {
				n.Vals = append(n.Vals, rn(v, active)) // values: enclosing scope
			}
			bodyActive := active
			if e == target {
				for i, nm := range n.Names {
					if nm == from {
						n.Names[i] = to
					}
				}
				bodyActive = true
			} else if active {
				for _, nm := range e.Names {
					if nm == from {
						bodyActive = false // shadowed inside this body
					}
				}
			}
			n.Body = rn(e.Body, bodyActive)
			return n
		case *ast.Chain:
			h := e.Head
			if h.Kind == ast.HVar && active && h.Name == from {
				h.Name = to
			}
			h.Args = rnArgs(h.Args, active)
			h.Items = rnList(h.Items, active)
			if h.X != nil {
				h.X = rn(h.X, active)
			}
			n := &ast.Chain{Head: h}
			for _, s := range e.Steps {
				ns := s
				ns.Args = rnArgs(s.Args, active)
				ns.Items = rnList(s.Items, active)
				if s.Cond != nil {
					ns.Cond = rn(s.Cond, active)
				}
				n.Steps = append(n.Steps, ns)
			}
			return n
		}
		return e
	}
	return rn(e, false)
}

func collectLets(e ast.Expr) []*ast.Let {
	var out []*ast.Let
	ast.Walk(e, func(x ast.Expr) {
		if l, ok := x.(*ast.Let); ok {
			out = append(out, l)
		}
	})
	return out
}

func c19Doc(t *rapid.T) jv.Val {
	arr := func() jv.Val {
		n := rapid.IntRange(0, 4).Draw(t, "n")
		if rapid.IntRange(0, 79).Draw(t, "long") == 0 {
			n = gen.Pick(t, "longlen", []int{13, 33, 64, 65})
		}
		a := make([]jv.Val, n)
		for i := range a {
			if n > 4 {
				a[i] = jv.VInt(int64(i % 7))
			} else {
				a[i] = gen.Scalar(t)
			}
		}
		return jv.VArr(a)
	}
	recs := func() jv.Val {
		n := rapid.IntRange(0, 4).Draw(t, "nr")
		a := make([]jv.Val, n)
		for i := range a {
			ms := []jv.Member{{K: "id", V: jv.VInt(int64(i))}, {K: "s", V: jv.VStr(gen.Pick(t, "recs", []string{"a", "b", "c", "é", "ab", ""}))}}
			if rapid.IntRange(0, 3).Draw(t, "hask") > 0 {
				ms = append(ms, jv.Member{K: "k", V: jv.VInt(int64(rapid.IntRange(0, 2).Draw(t, "k")))})
			}
			a[i] = jv.VObj(ms)
		}
		return jv.VArr(a)
	}
	return jv.VObj([]jv.Member{{K: "a", V: arr()}, {K: "aa", V: jv.VArr([]jv.Val{arr(), gen.Scalar(t), arr()})}, {K: "b", V: gen.Scalar(t)}, {K: "n", V: gen.Num(t)}, {K: "s", V: jv.VStr(gen.Str(t))},
		{K: "o", V: jv.VObj([]jv.Member{{K: "p", V: gen.Scalar(t)}, {K: "q", V: gen.Scalar(t)}})}, {K: "r", V: recs()}})
}

// C19: let-bindings are lexically scoped and capture the value at binding time.
func TestC19_Let(t *testing.T) {
	c := collector("C19", "let")
	check(t, func(t *rapid.T) {
		doc := c19Doc(t)
		lg := &letGen{t: t, doc: doc}
		e := lg.let(0)
		text := ast.RenderWith(e, gen.Chooser{T: t})
		c.Case()
		res, ev := model.Eval(e, doc)
		if res.Undet == "" && res.Err == 0 && valueSize(res.V, 200000) >= 200000 {
			// long arrays under nested projections: the result is legitimately
			// huge (polynomial), and comparing it costs more than it tells
			c.Skip("result-too-large")
			return
		}
		if res.Undet == "" {
			if modelDiff(t, c, "let", e, text, doc, res) {
				return
			}
		} else {
			c.Skip(res.Undet)
		}
		// alpha-renaming: consistently renaming a bound variable never
		// changes the outcome (library vs library, also where the model is
		// undetermined -- unless the outcome legitimately varies)
		lets := collectLets(e)
		target := lets[rapid.IntRange(0, len(lets)-1).Draw(t, "target")]
		from := target.Names[rapid.IntRange(0, len(target.Names)-1).Draw(t, "which")]
		renamed := renameBound(e, target, from, "fresh")
		rtext := ast.RenderWith(renamed, gen.Chooser{T: t})
		node := run.FromVal(doc)
		calls := []run.Call{{API: "search", Expr: text, Doc: &node}, {API: "search", Expr: rtext, Doc: &node}}
		run.Watch(c, "let", calls...)
		varies := enumeratesMembers(e) && res.Undet != ""
		if !varies {
			o1 := run.Search(text, node.Build())
			o2 := run.Search(rtext, node.Build())
			msg := ""
			if res.Err.Count() > 1 || res.Undet != "" {
				if o1.Failed != o2.Failed || o1.Panic != "" || o2.Panic != "" {
					msg = fmt.Sprintf("one fails, the other does not: %s vs %s", o1, o2)
				} else if !o1.Failed {
					msg = run.SameOutcome(o1, o2, enumeratesMembers(e))
				}
			} else {
				msg = run.SameOutcome(o1, o2, enumeratesMembers(e))
			}
			if msg != "" {
				c.Fail(t, run.Replay{Check: "alpha", Kind: "custom:c19-alpha", Calls: calls, Loose: enumeratesMembers(e), Message: "alpha-renaming $" + from + " changes the outcome: " + msg,
					Extra: mustJSON(map[string]any{"multi_fault": res.Err.Count() > 1 || res.Undet != ""})}, "alpha")
				return
			}
		}
		c.Label("ok")
		if ev.Shadowed > 0 {
			c.Label("shadowing")
		}
		if ev.VarReadMoved > 0 {
			c.Label("read-at-moved-node")
		}
		if res.Err&model.UndefVar != 0 {
			c.Label("undefined-variable")
		}
		if res.Undet == "" && (ev.VarReadMoved > 0 || ev.Shadowed > 0) {
			c.NonTrivial(text+"\x00"+doc.JSON(), func() any {
				return map[string]any{"expr": text, "renamed": rtext, "doc": doc.JSON(), "outcome": truncate(describe(res), 200)}
			})
		}
	})
}

func init() {
	customReplays["custom:c19-alpha"] = func(r run.Replay) string {
		if len(r.Calls) != 2 {
			return "malformed replay"
		}
		var ex struct {
			Multi bool `json:"multi_fault"`
		}
		_ = jsonUnmarshal(r.Extra, &ex)
		o1, o2 := doCall(r.Calls[0]), doCall(r.Calls[1])
		if ex.Multi {
			if o1.Failed != o2.Failed || o1.Panic != "" || o2.Panic != "" {
				return fmt.Sprintf("one fails, the other does not: %s vs %s", o1, o2)
			}
			if o1.Failed {
				return ""
			}
		}
		return run.SameOutcome(o1, o2, r.Loose)
	}
}

// valueSize counts the nodes of v, giving up at limit.
func valueSize(v jv.Val, limit int) int {
	n := 1
	switch v.K {
	case jv.Arr:
		for _, e := range v.A {
			if n >= limit {
				return n
			}
			n += valueSize(e, limit-n)
		}
	case jv.Obj:
		for _, m := range v.O {
			if n >= limit {
				return n
			}
			n += valueSize(m.V, limit-n)
		}
	}
	return n
}
