package props

import (
	"testing"

	"pgregory.net/rapid"

	"verif/harness/ast"
	"verif/harness/gen"
	"verif/harness/jv"
	"verif/harness/model"
)

// genCall draws one function call together with the document its arguments
// refer to.
func genCall(t *rapid.T) (ast.Expr, jv.Val, string) {
	f := gen.FnGen{T: t}
	name := gen.Pick(t, "fn", model.FuncNames)
	if gen.Chance(t, "unknown", 1, 60) {
		name = gen.Pick(t, "badfn", []string{"foo", "Abs", "length2", "to_strin", "sort_by2", "x"})
	}
	sig, known := model.Sigs[name]
	kinds := gen.ParamKinds[name]
	var argc int
	if !known {
		argc = rapid.IntRange(0, 3).Draw(t, "argc")
		sig = model.Sig{Min: 0, Max: 9}
	} else {
		max := sig.Max
		if max < 0 {
			max = sig.Min + 2
		}
		switch rapid.IntRange(0, 11).Draw(t, "argckind") {
		case 0:
			argc = sig.Min - 1
		case 1:
			argc = max + 1
		case 2:
			argc = 0
		case 3:
			argc = max + 2
		default:
			argc = rapid.IntRange(sig.Min, max).Draw(t, "argc")
		}
		if argc < 0 {
			argc = 0
		}
	}
	var members []jv.Member
	args := make([]ast.Arg, argc)
	subject := ""
	// the first string argument relates the later ones (substring, offsets)
	vals := make([]jv.Val, argc)
	for i := 0; i < argc; i++ {
		kind := "any"
		if i < len(kinds) {
			kind = kinds[i]
		}
		if kind == "&" {
			if gen.Chance(t, "plain-for-ref", 1, 12) {
				args[i] = ast.A(f.RefExpr())
			} else {
				args[i] = ast.Ref(f.RefExpr())
			}
			continue
		}
		var v jv.Val
		if gen.Chance(t, "fitting", 3, 4) {
			v = f.Val(kind, subject)
		} else {
			v = gen.Value(t, gen.DocCfg{MaxDepth: 2, MaxFan: 3}, 0)
		}
		vals[i] = v
		if i == 0 && v.K == jv.Str {
			subject = v.S
		}
		if gen.Chance(t, "ref-for-value", 1, 40) {
			args[i] = ast.Ref(ast.F("k"))
			continue
		}
		if (kind == "count" || kind == "int") && gen.Chance(t, "fraction", 1, 10) {
			// a computed non-integral (or integral) decimal
			a := gen.Pick(t, "fa", []string{"3", "4", "1", "7"})
			b := gen.Pick(t, "fb", []string{"2", "1", "4"})
			args[i] = ast.A(ast.Paren(ast.Bin("/", ast.Lit(jv.VNumText(a)), ast.Lit(jv.VNumText(b)))))
			continue
		}
		args[i] = ast.A(f.Supply(v, i, &members))
	}
	var e ast.Expr = ast.Call(name, args...)
	// expression references may use a variable of the caller's scope
	usesVar := false
	ast.Walk(e, func(x ast.Expr) {
		if c, ok := x.(*ast.Chain); ok && c.Head.Kind == ast.HVar {
			usesVar = true
		}
	})
	if usesVar && !gen.Chance(t, "unbound", 1, 10) {
		e = &ast.Let{Names: []string{"v"}, Vals: []ast.Expr{ast.Lit(gen.Pick(t, "varval", []jv.Val{jv.VInt(1), jv.VStr("s"), jv.VNull()}))}, Body: e}
	}
	// sometimes evaluate the call inside a projection, where the current node changes
	if gen.Chance(t, "wrap", 1, 10) {
		members = append(members, jv.Member{K: "w", V: jv.VArr([]jv.Val{jv.VInt(1), jv.VInt(2)})})
		e = ast.F("w").With(ast.Step{Kind: ast.SListStar}, ast.Step{Kind: ast.SMultiList, Items: []ast.Expr{ast.Bin("|", &ast.Chain{Head: ast.Head{Kind: ast.HRoot}}, e)}})
	}
	return e, jv.VObj(members), name
}

// C02: every built-in, every argument count, every argument type.
func TestC02_Funcs(t *testing.T) {
	c := collector("C02", "funcs")
	check(t, func(t *rapid.T) {
		e, doc, name := genCall(t)
		text := ast.RenderWith(e, gen.Chooser{T: t})
		c.Case()
		if model.Static(e).RefAtValue && kfOpen("expref-at-value-position") {
			c.Exclude("expref-at-value-position")
			return
		}
		res, _ := model.Eval(e, doc)
		if res.Undet != "" {
			c.Skip(res.Undet)
			return
		}
		if modelDiff(t, c, "funcs", e, text, doc, res) {
			return
		}
		class := "value"
		switch {
		case res.Err != 0:
			class = "err:" + res.Err.Names()[0]
			if res.Err.Count() > 1 {
				class = "err:multi"
			}
		case res.V.K == jv.Null:
			class = "null"
		}
		c.Label(name + "/" + class)
		if class != "null" && class != "err:multi" {
			c.NonTrivial(text+"\x00"+doc.JSON(), func() any {
				return map[string]any{"expr": text, "doc": doc.JSON(), "outcome": describe(res)}
			})
		}
	})
}
