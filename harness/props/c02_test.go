package props

import (
	"strconv"
	"fmt"
	"testing"

	"pgregory.net/rapid"

	"verif/harness/ast"
	"verif/harness/gen"
	"verif/harness/jv"
	"verif/harness/model"
)

// genCall draws one function call together with the document its arguments
// refer to.
// callIdioms: first / last / rest / reversed / each of a result, written
// directly on a call (what an implementation is tempted to fuse with the call).
var callIdioms = [][]ast.Step{{{Kind: ast.SIndex, Index: -1}}, {{Kind: ast.SIndex, Index: 0}}, {{Kind: ast.SIndex, Index: -1}}, {{Kind: ast.SIndex, Index: 0}}, {{Kind: ast.SIndex, Index: 1}}, {{Kind: ast.SSlice, Start: ast.I64(1)}}, {{Kind: ast.SSlice, Stop: ast.I64(1)}},
	{{Kind: ast.SSlice, Stop: ast.I64(-1)}}, {{Kind: ast.SSlice, Stride: ast.I64(-1)}}, {{Kind: ast.SListStar}}, {{Kind: ast.SFlatten}}, {{Kind: ast.SIndex, Index: -1}, {Kind: ast.SIndex, Index: -1}}, {{Kind: ast.SIndex, Index: -2}},
	{{Kind: ast.SListStar}, {Kind: ast.SIndex, Index: 0}}, {{Kind: ast.SFilter, Cond: ast.Cur()}}}

// stringRelCall draws a call of a string function whose string arguments
// stand in every length relation to one another: equal, one a prefix, suffix
// or repetition of the other, the second longer than the first by one or by
// several bytes, either of them empty or a single (multi-byte) character.
func stringRelCall(t *rapid.T) (ast.Expr, jv.Val, string) {
	subj := gen.Pick(t, "rel-subject", []string{"", "a", "é", "ab", "aé", "abc", "a,b", "😀", "a😀", "x y", "aaa", "abab", "a", "b"})
	rs := []rune(subj)
	rels := []string{subj, subj + "x", "x" + subj, subj + subj, " - ", ".tar.gz", "é😀", "", "::", ", ", "--"}
	if len(rs) > 0 {
		rels = append(rels, string(rs[:1]), string(rs[len(rs)-1:]), string(rs[:len(rs)-1])+"z")
	}
	other := gen.Pick(t, "rel-other", rels)
	var members []jv.Member
	str := func(label, v string) ast.Arg {
		switch rapid.IntRange(0, 3).Draw(t, "rel-supply-"+label) {
		case 0:
			return ast.A(ast.RawS(v))
		case 1:
			return ast.A(ast.Lit(jv.VStr(v)))
		}
		members = append(members, jv.Member{K: label, V: jv.VStr(v)})
		return ast.A(ast.F(label))
	}
	num := func(label string) ast.Arg {
		return ast.A(ast.Lit(jv.VInt(int64(rapid.IntRange(-2, len(rs)+2).Draw(t, "rel-int-"+label)))))
	}
	name := gen.Pick(t, "rel-fn", []string{"contains", "starts_with", "ends_with", "find_first", "find_last", "replace", "split", "split", "trim", "trim_left", "trim_right", "join", "pad_left", "pad_right"})
	args := []ast.Arg{str("s", subj), str("u", other)}
	switch name {
	case "find_first", "find_last":
		for k := rapid.IntRange(0, 2).Draw(t, "rel-extra"); k > 0; k-- {
			args = append(args, num(fmt.Sprint("i", k)))
		}
	case "replace":
		args = append(args, str("r", gen.Pick(t, "rel-repl", []string{"", "z", other + other, subj})))
		if rapid.Bool().Draw(t, "rel-count") {
			args = append(args, ast.A(ast.Lit(jv.VInt(int64(rapid.IntRange(0, 3).Draw(t, "rel-n"))))))
		}
	case "split":
		if rapid.IntRange(0, 2).Draw(t, "rel-count") == 0 {
			args = append(args, ast.A(ast.Lit(jv.VInt(int64(rapid.IntRange(0, 3).Draw(t, "rel-n"))))))
		}
	case "trim", "trim_left", "trim_right":
		if rapid.IntRange(0, 3).Draw(t, "rel-default") == 0 {
			args = args[:1]
		}
	case "join":
		members = append(members, jv.Member{K: "items", V: jv.VArr([]jv.Val{jv.VStr(subj), jv.VStr(subj), jv.VStr("")}[:rapid.IntRange(0, 3).Draw(t, "rel-items")])})
		args = []ast.Arg{str("u", other), ast.A(ast.F("items"))}
	case "pad_left", "pad_right":
		pad := "-"
		if or := []rune(other); len(or) > 0 {
			pad = string(or[:1])
		}
		args = []ast.Arg{str("s", subj), ast.A(ast.Lit(jv.VInt(int64(rapid.IntRange(0, len(rs)+3).Draw(t, "rel-width"))))), str("p", pad)}
	}
	call := ast.Call(name, args...)
	if rapid.Bool().Draw(t, "rel-idiom") {
		call = call.With(gen.Pick(t, "rel-idiomsteps", callIdioms)...)
	}
	return call, jv.VObj(members), name
}

func genCall(t *rapid.T) (ast.Expr, jv.Val, string) {
	if gen.Chance(t, "stringrel", 1, 8) {
		return stringRelCall(t)
	}
	if gen.Chance(t, "selfkey", 1, 16) {
		// the functions that take an expression reference, over plain strings
		// or numbers with the element itself as key
		fn := gen.Pick(t, "selfkeyfn", []string{"sort_by", "sort_by", "min_by", "max_by", "group_by", "map"})
		n := rapid.IntRange(0, 5).Draw(t, "selfkeylen")
		strs := fn == "group_by" || rapid.Bool().Draw(t, "selfkeystrings")
		a := make([]jv.Val, n)
		for i := range a {
			if strs {
				a[i] = jv.VStr(gen.Pick(t, "selfkeystr", []string{"pear", "apple", "fig", "", "é", "apple", "b", "日本"}))
			} else {
				a[i] = jv.VNumText(gen.Pick(t, "selfkeynum", []string{"3", "1", "2", "1.0", "-1", "1e0", "10"}))
			}
		}
		key := gen.Pick(t, "selfkeyexpr", []ast.Expr{ast.Cur(), ast.Cur(), ast.Paren(ast.Cur()), ast.Call("not_null", ast.A(ast.Cur()))})
		subject := gen.Pick(t, "selfkeysubject", []ast.Expr{ast.F("p0"), ast.Lit(jv.VArr(a)), ast.F("p0").With(ast.Step{Kind: ast.SListStar})})
		if fn == "map" {
			return ast.Call(fn, ast.Ref(key), ast.A(subject)), jv.VObj([]jv.Member{{K: "p0", V: jv.VArr(a)}}), fn
		}
		return ast.Call(fn, ast.A(subject), ast.Ref(key)), jv.VObj([]jv.Member{{K: "p0", V: jv.VArr(a)}}), fn
	}
	f := gen.FnGen{T: t}
	name := gen.Pick(t, "fn", model.FuncNames)
	if gen.Chance(t, "unknown", 1, 60) {
		name = gen.Pick(t, "badfn", []string{"foo", "Abs", "length2", "to_strin", "sort_by2", "x"})
	}
	sig, known := model.Sigs[name]
	kinds := gen.ParamKinds[name]
	var argc int
	if !known {
		argc = rapid.IntRange(0, 3).Draw(t, "argc")
		sig = model.Sig{Min: 0, Max: 9}
	} else {
		max := sig.Max
		if max < 0 {
			max = sig.Min + 2
		}
		switch rapid.IntRange(0, 11).Draw(t, "argckind") {
		case 0:
			argc = sig.Min - 1
		case 1:
			argc = max + 1
		case 2:
			argc = 0
		case 3:
			argc = max + 2
		default:
			argc = rapid.IntRange(sig.Min, max).Draw(t, "argc")
		}
		if argc < 0 {
			argc = 0
		}
	}
	var members []jv.Member
	args := make([]ast.Arg, argc)
	subject := ""
	// the first string argument relates the later ones (substring, offsets)
	vals := make([]jv.Val, argc)
	for i := 0; i < argc; i++ {
		kind := "any"
		if i < len(kinds) {
			kind = kinds[i]
		}
		if kind == "&" {
			if gen.Chance(t, "plain-for-ref", 1, 12) {
				args[i] = ast.A(f.RefExpr())
			} else {
				args[i] = ast.Ref(f.RefExpr())
			}
			continue
		}
		var v jv.Val
		if gen.Chance(t, "fitting", 3, 4) {
			v = f.Val(kind, subject)
		} else {
			v = gen.Value(t, gen.DocCfg{MaxDepth: 2, MaxFan: 3}, 0)
		}
		vals[i] = v
		if i == 0 && v.K == jv.Str {
			subject = v.S
		}
		if gen.Chance(t, "ref-for-value", 1, 40) {
			args[i] = ast.Ref(ast.F("k"))
			continue
		}
		if (kind == "count" || kind == "int") && gen.Chance(t, "fraction", 1, 10) {
			// a computed non-integral (or integral) decimal
			a := gen.Pick(t, "fa", []string{"3", "4", "1", "7"})
			b := gen.Pick(t, "fb", []string{"2", "1", "4"})
			args[i] = ast.A(ast.Paren(ast.Bin("/", ast.Lit(jv.VNumText(a)), ast.Lit(jv.VNumText(b)))))
			continue
		}
		args[i] = ast.A(f.Supply(v, i, &members))
	}
	var e ast.Expr = ast.Call(name, args...)
	if gen.Chance(t, "callidiom", 1, 5) {
		// first / last / rest / reversed / each of the result, written directly
		// on the call (what an implementation is tempted to fuse with the call)
		e = ast.Call(name, args...).With(gen.Pick(t, "callidiomsteps", callIdioms)...)
	}
	// expression references may use a variable of the caller's scope
	usesVar := false
	ast.Walk(e, func(x ast.Expr) {
		if c, ok := x.(*ast.Chain); ok && c.Head.Kind == ast.HVar {
			usesVar = true
		}
	})
	if usesVar && !gen.Chance(t, "unbound", 1, 10) {
		e = &ast.Let{Names: []string{"v"}, Vals: []ast.Expr{ast.Lit(gen.Pick(t, "varval", []jv.Val{jv.VInt(1), jv.VStr("s"), jv.VNull()}))}, Body: e}
	}
	// sometimes evaluate one and the same call site once per element of an
	// array of records that carry different argument values (whatever the
	// call keeps or writes between two evaluations shows in the later ones)
	if gen.Chance(t, "rows", 1, 8) {
		rows := make([]jv.Val, rapid.IntRange(2, 4).Draw(t, "nrows"))
		for i := range rows {
			ms := make([]jv.Member, len(members))
			for j, m := range members {
				ms[j] = jv.Member{K: m.K, V: perturbArg(m.V, i)}
			}
			rows[i] = jv.VObj(ms)
		}
		members = []jv.Member{{K: "rows", V: jv.VArr(rows)}}
		proj := gen.Pick(t, "rowsproj", []ast.Step{{Kind: ast.SListStar}, {Kind: ast.SFlatten}, {Kind: ast.SSlice, Stride: ast.I64(-1)}, {Kind: ast.SFilter, Cond: ast.Lit(jv.VBool(true))}})
		e = ast.F("rows").With(proj, ast.Step{Kind: ast.SMultiList, Items: []ast.Expr{e}})
		if gen.Chance(t, "rowsmap", 1, 4) {
			e = ast.Call("map", ast.Ref(e.(*ast.Chain).Steps[1].Items[0]), ast.A(ast.F("rows")))
		}
		return e, jv.VObj(members), name
	}
	// sometimes evaluate the call inside a projection, where the current node changes
	if gen.Chance(t, "wrap", 1, 10) {
		members = append(members, jv.Member{K: "w", V: jv.VArr([]jv.Val{jv.VInt(1), jv.VInt(2)})})
		e = ast.F("w").With(ast.Step{Kind: ast.SListStar}, ast.Step{Kind: ast.SMultiList, Items: []ast.Expr{ast.Bin("|", &ast.Chain{Head: ast.Head{Kind: ast.HRoot}}, e)}})
	}
	return e, jv.VObj(members), name
}

// perturbArg changes an argument value for row i (> 0) without changing its
// type: containers gain a member or element, strings a character.
func perturbArg(v jv.Val, i int) jv.Val {
	if i == 0 {
		return v
	}
	switch v.K {
	case jv.Obj:
		ms := append([]jv.Member{}, v.O...)
		ms = append(ms, jv.Member{K: "row" + strconv.Itoa(i), V: jv.VInt(int64(i))})
		return jv.VObj(ms)
	case jv.Arr:
		if len(v.A) == 0 {
			return v
		}
		a := append([]jv.Val{}, v.A...)
		if i%2 == 1 {
			// rotate: same elements, another order
			a = append(a[1:], a[0])
		} else {
			a = append(a, a[0])
		}
		return jv.VArr(a)
	case jv.Str:
		return jv.VStr(v.S + string(rune('a'+i)))
	}
	return v
}

// C02: every built-in, every argument count, every argument type.
func TestC02_Funcs(t *testing.T) {
	c := collector("C02", "funcs")
	check(t, func(t *rapid.T) {
		e, doc, name := genCall(t)
		text := ast.RenderWith(e, gen.Chooser{T: t})
		c.Case()
		if model.Static(e).RefAtValue && kfOpen("expref-at-value-position") {
			c.Exclude("expref-at-value-position")
			return
		}
		res, _ := model.Eval(e, doc)
		if res.Undet != "" {
			c.Skip(res.Undet)
			return
		}
		if modelDiff(t, c, "funcs", e, text, doc, res) {
			return
		}
		class := "value"
		switch {
		case res.Err != 0:
			class = "err:" + res.Err.Names()[0]
			if res.Err.Count() > 1 {
				class = "err:multi"
			}
		case res.V.K == jv.Null:
			class = "null"
		}
		c.Label(name + "/" + class)
		if class != "null" && class != "err:multi" {
			c.NonTrivial(text+"\x00"+doc.JSON(), func() any {
				return map[string]any{"expr": text, "doc": doc.JSON(), "outcome": describe(res)}
			})
		}
	})
}
