package props

import (
	"fmt"
	"os"
	"os/exec"
	"strconv"
	"strings"
	"testing"

	"pgregory.net/rapid"

	"verif/harness/ast"
	"verif/harness/gen"
	"verif/harness/jv"
	"verif/harness/model"
	"verif/harness/run"
)

var tokenPalette = []string{"a", "b", "\"a\"", "'s'", "`1`", "`\"x\"`", "@", "$", "$x", "(", ")", "[", "]", "{", "}", ".", ",", ":", "*", "[*]", "[]", "[?", ".*", "|", "||", "&&", "&", "!", "==", "!=", "<", "<=", ">", ">=", "+", "-", "*", "/", "//", "%", "×", "÷", "−", "=", "let", "in", "0", "1", "-1", "abs", "length", "sort_by", "?", "#", "\\", "\"", "'", "`", "é", " "}

var hostileInts = []string{"0", "-0", "00", "007", "-1", "9223372036854775807", "9223372036854775808", "-9223372036854775808", "-9223372036854775809", "99999999999999999999999", "4294967296", "1.0", "1e3", "+1", "0x10"}

// mutate applies one token- or byte-level mutation to a valid expression.
func mutate(t *rapid.T, text string) (string, string) {
	spans, ok := ast.TokenSpans(text)
	kind := rapid.IntRange(0, 16).Draw(t, "mutation")
	if !ok || len(spans) == 0 {
		kind = 9
	}
	join := func(s []string) string {
		// single spaces between tokens keep the token boundaries intact,
		// except where a unit token would be split by construction
		return strings.Join(s, " ")
	}
	pos := func() int { return rapid.IntRange(0, len(spans)-1).Draw(t, "at") }
	switch kind {
	case 0: // delete a token
		i := pos()
		out := append(append([]string{}, spans[:i]...), spans[i+1:]...)
		return join(out), "delete-token"
	case 1: // duplicate a token
		i := pos()
		out := append(append(append([]string{}, spans[:i+1]...), spans[i]), spans[i+1:]...)
		return join(out), "duplicate-token"
	case 2: // swap two adjacent tokens
		if len(spans) < 2 {
			return join(spans), "identity"
		}
		i := rapid.IntRange(0, len(spans)-2).Draw(t, "at")
		out := append([]string{}, spans...)
		out[i], out[i+1] = out[i+1], out[i]
		return join(out), "swap-tokens"
	case 3: // insert a token
		i := rapid.IntRange(0, len(spans)).Draw(t, "at")
		tok := gen.Pick(t, "tok", tokenPalette)
		out := append(append(append([]string{}, spans[:i]...), tok), spans[i:]...)
		return join(out), "insert-token"
	case 4: // replace a token
		i := pos()
		out := append([]string{}, spans...)
		out[i] = gen.Pick(t, "tok", tokenPalette)
		return join(out), "replace-token"
	case 5: // truncate
		if len(text) == 0 {
			return text, "identity"
		}
		n := rapid.IntRange(0, len(text)-1).Draw(t, "cut")
		for n > 0 && n < len(text) && text[n]&0xC0 == 0x80 {
			n--
		}
		return text[:n], "truncate"
	case 6: // break an escape or a literal
		i := pos()
		out := append([]string{}, spans...)
		s := out[i]
		switch {
		case strings.HasPrefix(s, "`") && len(s) >= 2:
			inner := s[1 : len(s)-1]
			inner = gen.Pick(t, "badjson", []string{inner + " x", inner + ",", "{" + inner, "[" + inner, inner + "]", "\"" + strings.Trim(inner, "\""), strings.TrimSuffix(inner, "\""), "01", "1.", ".5", "+1", "tru", "nul", "{\"a\":}", "[1,]", "{a:1}", "'a'", "\"\\x\"", "\"\\u12\"", "\"a\nb\"", "", " ", inner + inner,
				// numbers that stop short, or go on, where RFC 8259 wants a digit (and a few that are fine)
				"1e+", "1E-", "-0.5e-", "10e-", "1e", "1E", "0e", "-0e-", "1.0e", "1.0E+", "-", "-.5", "1.e1", "1e1.5", "--1", "0x1F", "1_000", "1e+ 1", "+1e1", "1.5.2", "00", "-01", "1 2", "Infinity", "NaN", "-Infinity",
				"[1e+]", "{\"a\":1e-}", "[-]", "[1.]", "[1,-]", "1e+1", "-0e-0", "[1E+1, 2e-0]", inner + "e+", inner + "e", inner + ".", "-" + inner})
			out[i] = "`" + inner + "`"
		case strings.HasPrefix(s, "\"") && len(s) >= 2:
			inner := s[1 : len(s)-1]
			inner += gen.Pick(t, "badesc", []string{"\\x", "\\u12", "\\u12G4", "\\", "\\uD83D", "\\uD83Dxu0041", "\\uD83D\\n", "\\uDC00", "\\'", "\\a", "\\uD83D\\x0041", "\\ud800\\00000", "\\uD83D\\u  00", "\\uD83D\\u00/0", "\\uD83D\\uDE0", "\\uD83D\\UDE00", "\\ud83d\\ude00", "\\uD83D\\u+E00"})
			if rapid.Bool().Draw(t, "close") {
				out[i] = "\"" + inner + "\""
			} else {
				out[i] = "\"" + inner
			}
		case strings.HasPrefix(s, "'"):
			out[i] = s[:len(s)-1] + gen.Pick(t, "badraw", []string{"", "\\", "\\'", "''"})
		default:
			out[i] = s + gen.Pick(t, "suffix", []string{"\"", "'", "`", "\\", "#"})
		}
		return join(out), "break-literal"
	case 7: // wrong token kind in key / index position, missing comma or colon
		s := join(spans)
		rep := gen.Pick(t, "structural", [][2]string{{": ", " "}, {" , ", " "}, {"{ ", "{ 1 "}, {"{ ", "{ 'x' "}, {"[ ", "[ , "}, {" ]", " , ]"}, {" }", " , }"}, {"[ ", "[ a "}, {" ( ", " ( , "}, {" )", " , )"}, {": ", ": : "}, {" . ", " . . "}, {" . ", " . 1 "}, {"[ ", "[ 'a' "}, {"[ ", "[ \"a\" : "}})
		if !strings.Contains(s, rep[0]) {
			return s, "identity"
		}
		return strings.Replace(s, rep[0], rep[1], 1), "structural"
	case 8: // replace an integer by a hostile one
		out := append([]string{}, spans...)
		done := false
		for i, s := range out {
			if len(s) > 0 && (s[0] >= '0' && s[0] <= '9' || (s[0] == '-' && len(s) > 1)) {
				out[i] = gen.Pick(t, "hostileint", hostileInts)
				done = true
				break
			}
		}
		if !done {
			return join(out), "identity"
		}
		return join(out), "hostile-int"
	case 9: // insert a character at a byte offset
		n := rapid.IntRange(0, len(text)).Draw(t, "at")
		for n > 0 && n < len(text) && text[n]&0xC0 == 0x80 {
			n--
		}
		ch := gen.Pick(t, "ch", []string{"\"", "'", "`", "\\", "(", ")", "[", "]", "{", "}", "#", "?", "~", "^", ";", "\x00", "\x7f", "é", " ", "\n", ".", "*", "&", "|", "!", "=", "-", "0", "a", "$", "@", ",", ":", "\xff", "\xc3"})
		return text[:n] + ch + text[n:], "insert-char"
	case 10: // remove white space that may be significant / add white space inside units
		s := join(spans)
		rep := gen.Pick(t, "ws", [][2]string{{"[*]", "[ *]"}, {"[*]", "[* ]"}, {"[]", "[ ]"}, {"[?", "[ ?"}, {".*", ". *"}, {"||", "| |"}, {"&&", "& &"}, {"==", "= ="}, {"!=", "! ="}, {"<=", "< ="}, {"//", "/ /"}, {" in ", "in "}, {"let ", "let"}})
		if !strings.Contains(s, rep[0]) {
			return s, "identity"
		}
		return strings.Replace(s, rep[0], rep[1], 1), "whitespace"
	case 11: // tokens glued without white space
		return strings.Join(spans, ""), "glue"
	case 13, 14: // a character of some Unicode class put into, before or after a token
		// (identifiers, numbers, keywords and operators are ASCII-only outside
		// quotes; classification by unicode.IsDigit / IsLetter / IsSpace
		// instead of by ASCII range would accept these)
		i := pos()
		out := append([]string{}, spans...)
		rs := []rune(out[i])
		at := rapid.IntRange(0, len(rs)).Draw(t, "runeat")
		ch := gen.Pick(t, "unichar", []string{
			"0", "1", "7", "9", "_", "a", "Z", "-", ".", // ASCII characters that are legal elsewhere ($1, @7, a.-b, 1a ...)
			"\u0663", "\u0967", "\uff13", "\U0001d7d8", "\u00b2", "\u00bd", "\u2167", // digits and numbers (Nd, No, Nl)
			"\u00e9", "\u00c9", "\u00aa", "\u03b1", "\u65e5", "\u02b0", "\uff41", "\u0131", "\u212a", // letters (Ll, Lu, Lo, Lm; fullwidth a, dotless i, Kelvin sign)
			"\u0301", "\u20e3", "\u203f", "\uff3f", // marks and connector punctuation
			"\u00a0", "\u2003", "\u3000", "\u0085", "\u2028", "\u000b", "\u000c", // spaces that are not JSON / JMESPath white space
			"\ufeff", "\u200b", "\u200d", "\u00ad", "\u2060", // format characters
			"\uff0e", "\uff0a", "\uff5c", "\u2016", "\uff06", "\uff20", "\uff04", "\u2018", "\u2019", "\u201c", "\u201d", "\uff40", "\u2260", "\u2264", "\u2265", // look-alikes of operators and quotes
		})
		out[i] = string(rs[:at]) + ch + string(rs[at:])
		if rapid.Bool().Draw(t, "glued") {
			return strings.Join(out, ""), "unicode-char"
		}
		return join(out), "unicode-char"
	case 16: // an operator character glued to an operator token (÷/ must not become //, |& not a new token ...)
		var ops []int
		for i, sp := range spans {
			if strings.ContainsAny(sp, "/*+-<>=!|&%×÷−") && !strings.ContainsAny(sp, "`'\"abcdefghijklmnopqrstuvwxyz0123456789") {
				ops = append(ops, i)
			}
		}
		if len(ops) == 0 {
			return join(spans), "identity"
		}
		i := ops[rapid.IntRange(0, len(ops)-1).Draw(t, "opat")]
		out := append([]string{}, spans...)
		ch := gen.Pick(t, "opchar", []string{"/", "÷", "×", "−", "*", "+", "-", "<", ">", "=", "!", "|", "&", "%", "//", "=="})
		if rapid.Bool().Draw(t, "before") {
			out[i] = ch + out[i]
		} else {
			out[i] = out[i] + ch
		}
		return join(out), "glued-operator"
	case 15: // a character before or after the whole expression
		ch := gen.Pick(t, "edgechar", []string{"\ufeff", "\u00a0", "\u2028", "\u0085", "\u000b", "\u000c", "\u3000", "\u200b", "\x00", "\x1a", "\x7f", ";", "#", "\ufffe", "\uffff", "\xef\xbb", "\xef\xbb\xbf\xef\xbb\xbf"})
		if rapid.Bool().Draw(t, "leading") {
			return ch + text, "edge-char"
		}
		return text + ch, "edge-char"
	}
	return join(spans), "identity"
}

func fullCfg() gen.ExprCfg {
	cfg := gen.ExprCfg{MaxDepth: 2, MaxSteps: 3, Funcs: true, Let: true, Arith: true, Compare: true}
	if thorough() {
		cfg.MaxDepth = 3
		cfg.MaxSteps = 5
	}
	return cfg
}

// staticPreemptShape: the string contains something on which the library
// reports a static (non-syntax) fault before it has seen the whole string.
func staticPreemptShape(text string) bool {
	for i := 0; i < len(text); i++ {
		c := text[i]
		if c == '(' && i > 0 {
			j := i - 1
			for j >= 0 && (text[j] == ' ' || text[j] == '\t' || text[j] == '\n' || text[j] == '\r') {
				j--
			}
			if j >= 0 && (text[j] == '_' || text[j] >= 'a' && text[j] <= 'z' || text[j] >= 'A' && text[j] <= 'Z' || text[j] >= '0' && text[j] <= '9') {
				return true
			}
		}
	}
	// a slice with step 0 is reported while parsing
	return strings.Contains(text, "0") && strings.Contains(text, ":")
}

// C04: Compile accepts exactly the grammar.
func TestC04_Grammar(t *testing.T) {
	c := collector("C04", "grammar")
	check(t, func(t *rapid.T) {
		doc := gen.Doc(t, gen.DocCfg{MaxDepth: 3, MaxFan: 3})
		g := &gen.G{T: t, Root: doc, Cfg: fullCfg()}
		e := g.Expr(doc, 0)
		text := ast.RenderWith(e, gen.Chooser{T: t})
		mut := "none"
		if rapid.IntRange(0, 3).Draw(t, "mutate") > 0 {
			text, mut = mutate(t, text)
		}
		c.Case()
		pr := ast.Parse(text)
		if mut == "none" {
			// self-check of renderer and reference parser
			if pr.Verdict == ast.Out {
				t.Fatalf("HARNESS-BUG: reference parser rejects a rendered expression %q: %s", text, pr.Reason)
			}
			if pr.Verdict == ast.In && ast.Dump(ast.Normalize(pr.Expr)) != ast.Dump(ast.Normalize(e)) {
				t.Fatalf("HARNESS-BUG: round trip changed the expression %q:\n  %s\n  %s", text, ast.Dump(ast.Normalize(e)), ast.Dump(ast.Normalize(pr.Expr)))
			}
		}
		node := run.FromVal(doc)
		call := run.Call{API: "compile", Expr: text}
		run.Watch(c, "grammar", call)
		switch pr.Verdict {
		case ast.Undet:
			c.Skip("parse:" + pr.Reason)
			return
		case ast.Out:
			_, co := run.Compile(text)
			so := run.Search(text, node.Build())
			msg := ""
			switch {
			case co.Panic != "":
				msg = "Compile panicked: " + co.Panic
			case !co.Failed:
				msg = "not in the grammar (" + pr.Reason + ") but Compile accepts it"
			case co.Cats != model.Syntax:
				if staticPreemptShape(text) && co.Cats&(model.Arity|model.UnknownFn|model.InvType|model.InvValue) != 0 && co.Cats.Count() == 1 && kfOpen("static-error-preempts-syntax-error") {
					c.Exclude("static-error-preempts-syntax-error")
					return
				}
				msg = "not in the grammar (" + pr.Reason + "): expected a syntax error, got " + co.String()
			case !so.Failed || so.Cats != model.Syntax:
				msg = "Search disagrees with Compile on a string outside the grammar: " + so.String()
			}
			if msg != "" {
				c.Fail(t, run.Replay{Check: "grammar", Kind: "expect", Calls: []run.Call{call, {API: "search", Expr: text, Doc: &node}}, Expect: &run.Expect{Errors: []string{"syntax"}}, Message: msg}, "out:"+mut+":"+pr.Reason)
				return
			}
			c.Label("out/" + mut)
			if mut != "none" {
				c.NonTrivial(text, func() any { return map[string]any{"expr": text, "verdict": "OUT", "why": pr.Reason, "mutation": mut} })
			}
			return
		}
		// IN
		st := model.Static(pr.Expr)
		if st.Undet != "" {
			c.Skip(st.Undet)
			return
		}
		if st.RefAtValue && kfOpen("expref-at-value-position") {
			c.Exclude("expref-at-value-position")
			return
		}
		res, _ := model.Eval(pr.Expr, doc)
		if res.Undet != "" {
			// membership is still decided: Compile must not report a syntax error
			_, co := run.Compile(text)
			if co.Panic != "" || (co.Failed && co.Cats&model.Syntax != 0 && !st.ZeroStep) {
				c.Fail(t, run.Replay{Check: "grammar", Kind: "custom:c04-in", Calls: []run.Call{call}, Message: "in the grammar but rejected: " + co.String()}, "in:"+mut)
				return
			}
			c.Skip("value:" + res.Undet)
			return
		}
		if modelDiff(t, c, "grammar", pr.Expr, text, doc, res) {
			return
		}
		c.Label("in/" + mut)
		if pr.Tokens >= 6 && (mut != "none" || strings.ContainsAny(text, "\\\n\t×÷−(") || strings.Contains(text, "let ")) {
			c.NonTrivial(text+"\x00"+doc.JSON(), func() any {
				return map[string]any{"expr": text, "verdict": "IN", "mutation": mut, "outcome": describe(res)}
			})
		}
	})
}

func init() {
	customReplays["custom:c04-in"] = func(r run.Replay) string {
		for _, call := range r.Calls {
			_, co := run.Compile(call.Expr)
			if co.Panic != "" {
				return "Compile panicked: " + co.Panic
			}
			if co.Failed && co.Cats&model.Syntax != 0 {
				return "in the grammar but rejected: " + co.String()
			}
		}
		return ""
	}
	_ = jv.Null
}

// C04 (deep): the grammar puts no bound on nesting; every recursive construct
// nested 10^3 ... 3x10^5 deep is in the language and must compile. Depths above
// 10^4 run in a sacrificial child process (see TestC03_Depth; the recorded
// stack overflow begins at about 10^6).
func TestC04_Deep(t *testing.T) {
	c := collector("C04", "deep")
	depths := []int{1000, 10000, 100000, 300000}
	shard, _ := strconv.Atoi(getenv("VERIF_SHARD", "0"))
	nshards, _ := strconv.Atoi(getenv("VERIF_NSHARDS", "1"))
	i := 0
	for _, kind := range depthKinds {
		if kind == "data" || kind == "dataobj" {
			continue
		}
		for _, n := range depths {
			i++
			if i%nshards != shard {
				continue
			}
			c.Case()
			if kind == "literal" && n > 10000 {
				// RFC 8259 section 9 lets a JSON parser limit the nesting depth;
				// encoding/json stops at 10,000. Whether a deeper JSON text
				// between backticks is "legal" is not judged.
				c.Skip("json-literal-deeper-than-10000")
				continue
			}
			call := run.Call{API: "compile", Expr: "deep:" + kind + ":" + strconv.Itoa(n)}
			run.WatchAs(c, "deep", "custom:c04-deep", nil, call)
			msg := c04DeepVerdict(kind, n)
			if strings.HasPrefix(msg, "fatal error: stack overflow") && kfOpen("stack-overflow-deep-nesting") {
				c.Exclude("stack-overflow-deep-nesting")
				continue
			}
			if msg != "" {
				c.Fail(t, run.Replay{Check: "deep", Kind: "custom:c04-deep", Calls: []run.Call{call}, Message: fmt.Sprintf("%s nested %d deep: %s", kind, n, msg)}, kind)
				return
			}
			c.NonTrivial(kind+strconv.Itoa(n), func() any { return map[string]any{"construct": kind, "depth": n} })
		}
	}
}

func c04DeepVerdict(kind string, n int) string {
	if n > 10000 {
		cmd := exec.Command(os.Args[0], "-test.run", "^TestC04_DeepChild$", "-test.count=1", "-test.timeout=300s")
		cmd.Env = append(os.Environ(), "VERIF_DEEP_CASE="+kind+":"+strconv.Itoa(n))
		out, err := cmd.CombinedOutput()
		s := string(out)
		switch {
		case strings.Contains(s, "DEEP-OK"):
			return ""
		case strings.Contains(s, "DEEP-REJECTED"):
			return truncate(s[strings.Index(s, "DEEP-REJECTED"):], 300)
		case strings.Contains(s, "stack overflow") || strings.Contains(s, "goroutine stack exceeds"):
			return "fatal error: stack overflow (the process is killed; recover cannot catch it)"
		case strings.Contains(s, "out of memory") || strings.Contains(s, "cannot allocate"):
			return ""
		}
		return fmt.Sprintf("child process died: %v: %s", err, truncate(s, 400))
	}
	text, _ := deepExpr(kind, n)
	_, co := run.Compile(text)
	if co.Panic != "" {
		return "Compile panicked: " + firstLineOf(co.Panic)
	}
	if co.Failed {
		return "DEEP-REJECTED a member of the grammar is rejected: " + truncate(co.String(), 200)
	}
	return ""
}

func firstLineOf(s string) string {
	if i := strings.IndexByte(s, '\n'); i >= 0 {
		return s[:i]
	}
	return s
}

// TestC04_DeepChild is run as a subprocess by TestC04_Deep.
func TestC04_DeepChild(t *testing.T) {
	spec := os.Getenv("VERIF_DEEP_CASE")
	if spec == "" {
		t.Skip("child only")
	}
	parts := strings.Split(spec, ":")
	n, _ := strconv.Atoi(parts[1])
	text, _ := deepExpr(parts[0], n)
	_, co := run.Compile(text)
	if co.Panic != "" || co.Failed {
		fmt.Println("DEEP-REJECTED a member of the grammar is rejected: " + truncate(co.String(), 200))
		t.Fail()
		return
	}
	fmt.Println("DEEP-OK")
}

func init() {
	customReplays["custom:c04-deep"] = func(r run.Replay) string {
		if len(r.Calls) == 0 {
			return "malformed replay"
		}
		parts := strings.Split(r.Calls[0].Expr, ":")
		if len(parts) != 3 {
			return "malformed replay"
		}
		n, _ := strconv.Atoi(parts[2])
		return c04DeepVerdict(parts[1], n)
	}
}
