package props

import (
	"strings"
	"testing"

	"pgregory.net/rapid"

	"verif/harness/ast"
	"verif/harness/gen"
	"verif/harness/jv"
	"verif/harness/model"
	"verif/harness/run"
)

var tokenPalette = []string{"a", "b", "\"a\"", "'s'", "`1`", "`\"x\"`", "@", "$", "$x", "(", ")", "[", "]", "{", "}", ".", ",", ":", "*", "[*]", "[]", "[?", ".*", "|", "||", "&&", "&", "!", "==", "!=", "<", "<=", ">", ">=", "+", "-", "*", "/", "//", "%", "×", "÷", "−", "=", "let", "in", "0", "1", "-1", "abs", "length", "sort_by", "?", "#", "\\", "\"", "'", "`", "é", " "}

var hostileInts = []string{"0", "-0", "00", "007", "-1", "9223372036854775807", "9223372036854775808", "-9223372036854775808", "-9223372036854775809", "99999999999999999999999", "4294967296", "1.0", "1e3", "+1", "0x10"}

// mutate applies one token- or byte-level mutation to a valid expression.
func mutate(t *rapid.T, text string) (string, string) {
	spans, ok := ast.TokenSpans(text)
	kind := rapid.IntRange(0, 12).Draw(t, "mutation")
	if !ok || len(spans) == 0 {
		kind = 9
	}
	join := func(s []string) string {
		// single spaces between tokens keep the token boundaries intact,
		// except where a unit token would be split by construction
		return strings.Join(s, " ")
	}
	pos := func() int { return rapid.IntRange(0, len(spans)-1).Draw(t, "at") }
	switch kind {
	case 0: // delete a token
		i := pos()
		out := append(append([]string{}, spans[:i]...), spans[i+1:]...)
		return join(out), "delete-token"
	case 1: // duplicate a token
		i := pos()
		out := append(append(append([]string{}, spans[:i+1]...), spans[i]), spans[i+1:]...)
		return join(out), "duplicate-token"
	case 2: // swap two adjacent tokens
		if len(spans) < 2 {
			return join(spans), "identity"
		}
		i := rapid.IntRange(0, len(spans)-2).Draw(t, "at")
		out := append([]string{}, spans...)
		out[i], out[i+1] = out[i+1], out[i]
		return join(out), "swap-tokens"
	case 3: // insert a token
		i := rapid.IntRange(0, len(spans)).Draw(t, "at")
		tok := gen.Pick(t, "tok", tokenPalette)
		out := append(append(append([]string{}, spans[:i]...), tok), spans[i:]...)
		return join(out), "insert-token"
	case 4: // replace a token
		i := pos()
		out := append([]string{}, spans...)
		out[i] = gen.Pick(t, "tok", tokenPalette)
		return join(out), "replace-token"
	case 5: // truncate
		if len(text) == 0 {
			return text, "identity"
		}
		n := rapid.IntRange(0, len(text)-1).Draw(t, "cut")
		for n > 0 && n < len(text) && text[n]&0xC0 == 0x80 {
			n--
		}
		return text[:n], "truncate"
	case 6: // break an escape or a literal
		i := pos()
		out := append([]string{}, spans...)
		s := out[i]
		switch {
		case strings.HasPrefix(s, "`") && len(s) >= 2:
			inner := s[1 : len(s)-1]
			inner = gen.Pick(t, "badjson", []string{inner + " x", inner + ",", "{" + inner, "[" + inner, inner + "]", "\"" + strings.Trim(inner, "\""), strings.TrimSuffix(inner, "\""), "01", "1.", ".5", "+1", "tru", "nul", "{\"a\":}", "[1,]", "{a:1}", "'a'", "\"\\x\"", "\"\\u12\"", "\"a\nb\"", "", " ", inner + inner})
			out[i] = "`" + inner + "`"
		case strings.HasPrefix(s, "\"") && len(s) >= 2:
			inner := s[1 : len(s)-1]
			inner += gen.Pick(t, "badesc", []string{"\\x", "\\u12", "\\u12G4", "\\", "\\uD83D", "\\uD83Dxu0041", "\\uD83D\\n", "\\uDC00", "\\'", "\\a", "\\uD83D\\x0041", "\\ud800\\00000", "\\uD83D\\u  00", "\\uD83D\\u00/0", "\\uD83D\\uDE0", "\\uD83D\\UDE00", "\\ud83d\\ude00", "\\uD83D\\u+E00"})
			if rapid.Bool().Draw(t, "close") {
				out[i] = "\"" + inner + "\""
			} else {
				out[i] = "\"" + inner
			}
		case strings.HasPrefix(s, "'"):
			out[i] = s[:len(s)-1] + gen.Pick(t, "badraw", []string{"", "\\", "\\'", "''"})
		default:
			out[i] = s + gen.Pick(t, "suffix", []string{"\"", "'", "`", "\\", "#"})
		}
		return join(out), "break-literal"
	case 7: // wrong token kind in key / index position, missing comma or colon
		s := join(spans)
		rep := gen.Pick(t, "structural", [][2]string{{": ", " "}, {" , ", " "}, {"{ ", "{ 1 "}, {"{ ", "{ 'x' "}, {"[ ", "[ , "}, {" ]", " , ]"}, {" }", " , }"}, {"[ ", "[ a "}, {" ( ", " ( , "}, {" )", " , )"}, {": ", ": : "}, {" . ", " . . "}, {" . ", " . 1 "}, {"[ ", "[ 'a' "}, {"[ ", "[ \"a\" : "}})
		if !strings.Contains(s, rep[0]) {
			return s, "identity"
		}
		return strings.Replace(s, rep[0], rep[1], 1), "structural"
	case 8: // replace an integer by a hostile one
		out := append([]string{}, spans...)
		done := false
		for i, s := range out {
			if len(s) > 0 && (s[0] >= '0' && s[0] <= '9' || (s[0] == '-' && len(s) > 1)) {
				out[i] = gen.Pick(t, "hostileint", hostileInts)
				done = true
				break
			}
		}
		if !done {
			return join(out), "identity"
		}
		return join(out), "hostile-int"
	case 9: // insert a character at a byte offset
		n := rapid.IntRange(0, len(text)).Draw(t, "at")
		for n > 0 && n < len(text) && text[n]&0xC0 == 0x80 {
			n--
		}
		ch := gen.Pick(t, "ch", []string{"\"", "'", "`", "\\", "(", ")", "[", "]", "{", "}", "#", "?", "~", "^", ";", "\x00", "\x7f", "é", " ", "\n", ".", "*", "&", "|", "!", "=", "-", "0", "a", "$", "@", ",", ":", "\xff", "\xc3"})
		return text[:n] + ch + text[n:], "insert-char"
	case 10: // remove white space that may be significant / add white space inside units
		s := join(spans)
		rep := gen.Pick(t, "ws", [][2]string{{"[*]", "[ *]"}, {"[*]", "[* ]"}, {"[]", "[ ]"}, {"[?", "[ ?"}, {".*", ". *"}, {"||", "| |"}, {"&&", "& &"}, {"==", "= ="}, {"!=", "! ="}, {"<=", "< ="}, {"//", "/ /"}, {" in ", "in "}, {"let ", "let"}})
		if !strings.Contains(s, rep[0]) {
			return s, "identity"
		}
		return strings.Replace(s, rep[0], rep[1], 1), "whitespace"
	case 11: // tokens glued without white space
		return strings.Join(spans, ""), "glue"
	}
	return join(spans), "identity"
}

func fullCfg() gen.ExprCfg {
	cfg := gen.ExprCfg{MaxDepth: 2, MaxSteps: 3, Funcs: true, Let: true, Arith: true, Compare: true}
	if thorough() {
		cfg.MaxDepth = 3
		cfg.MaxSteps = 5
	}
	return cfg
}

// staticPreemptShape: the string contains something on which the library
// reports a static (non-syntax) fault before it has seen the whole string.
func staticPreemptShape(text string) bool {
	for i := 0; i < len(text); i++ {
		c := text[i]
		if c == '(' && i > 0 {
			j := i - 1
			for j >= 0 && (text[j] == ' ' || text[j] == '\t' || text[j] == '\n' || text[j] == '\r') {
				j--
			}
			if j >= 0 && (text[j] == '_' || text[j] >= 'a' && text[j] <= 'z' || text[j] >= 'A' && text[j] <= 'Z' || text[j] >= '0' && text[j] <= '9') {
				return true
			}
		}
	}
	// a slice with step 0 is reported while parsing
	return strings.Contains(text, "0") && strings.Contains(text, ":")
}

// C04: Compile accepts exactly the grammar.
func TestC04_Grammar(t *testing.T) {
	c := collector("C04", "grammar")
	check(t, func(t *rapid.T) {
		doc := gen.Doc(t, gen.DocCfg{MaxDepth: 3, MaxFan: 3})
		g := &gen.G{T: t, Root: doc, Cfg: fullCfg()}
		e := g.Expr(doc, 0)
		text := ast.RenderWith(e, gen.Chooser{T: t})
		mut := "none"
		if rapid.IntRange(0, 3).Draw(t, "mutate") > 0 {
			text, mut = mutate(t, text)
		}
		c.Case()
		pr := ast.Parse(text)
		if mut == "none" {
			// self-check of renderer and reference parser
			if pr.Verdict == ast.Out {
				t.Fatalf("HARNESS-BUG: reference parser rejects a rendered expression %q: %s", text, pr.Reason)
			}
			if pr.Verdict == ast.In && ast.Dump(ast.Normalize(pr.Expr)) != ast.Dump(ast.Normalize(e)) {
				t.Fatalf("HARNESS-BUG: round trip changed the expression %q:\n  %s\n  %s", text, ast.Dump(ast.Normalize(e)), ast.Dump(ast.Normalize(pr.Expr)))
			}
		}
		node := run.FromVal(doc)
		call := run.Call{API: "compile", Expr: text}
		run.Watch(c, "grammar", call)
		switch pr.Verdict {
		case ast.Undet:
			c.Skip("parse:" + pr.Reason)
			return
		case ast.Out:
			_, co := run.Compile(text)
			so := run.Search(text, node.Build())
			msg := ""
			switch {
			case co.Panic != "":
				msg = "Compile panicked: " + co.Panic
			case !co.Failed:
				msg = "not in the grammar (" + pr.Reason + ") but Compile accepts it"
			case co.Cats != model.Syntax:
				if staticPreemptShape(text) && co.Cats&(model.Arity|model.UnknownFn|model.InvType|model.InvValue) != 0 && co.Cats.Count() == 1 && kfOpen("static-error-preempts-syntax-error") {
					c.Exclude("static-error-preempts-syntax-error")
					return
				}
				msg = "not in the grammar (" + pr.Reason + "): expected a syntax error, got " + co.String()
			case !so.Failed || so.Cats != model.Syntax:
				msg = "Search disagrees with Compile on a string outside the grammar: " + so.String()
			}
			if msg != "" {
				c.Fail(t, run.Replay{Check: "grammar", Kind: "expect", Calls: []run.Call{call, {API: "search", Expr: text, Doc: &node}}, Expect: &run.Expect{Errors: []string{"syntax"}}, Message: msg}, "out:"+mut+":"+pr.Reason)
				return
			}
			c.Label("out/" + mut)
			if mut != "none" {
				c.NonTrivial(text, func() any { return map[string]any{"expr": text, "verdict": "OUT", "why": pr.Reason, "mutation": mut} })
			}
			return
		}
		// IN
		st := model.Static(pr.Expr)
		if st.Undet != "" {
			c.Skip(st.Undet)
			return
		}
		if st.RefAtValue && kfOpen("expref-at-value-position") {
			c.Exclude("expref-at-value-position")
			return
		}
		res, _ := model.Eval(pr.Expr, doc)
		if res.Undet != "" {
			// membership is still decided: Compile must not report a syntax error
			_, co := run.Compile(text)
			if co.Panic != "" || (co.Failed && co.Cats&model.Syntax != 0 && !st.ZeroStep) {
				c.Fail(t, run.Replay{Check: "grammar", Kind: "custom:c04-in", Calls: []run.Call{call}, Message: "in the grammar but rejected: " + co.String()}, "in:"+mut)
				return
			}
			c.Skip("value:" + res.Undet)
			return
		}
		if modelDiff(t, c, "grammar", pr.Expr, text, doc, res) {
			return
		}
		c.Label("in/" + mut)
		if pr.Tokens >= 6 && (mut != "none" || strings.ContainsAny(text, "\\\n\t×÷−(") || strings.Contains(text, "let ")) {
			c.NonTrivial(text+"\x00"+doc.JSON(), func() any {
				return map[string]any{"expr": text, "verdict": "IN", "mutation": mut, "outcome": describe(res)}
			})
		}
	})
}

func init() {
	customReplays["custom:c04-in"] = func(r run.Replay) string {
		for _, call := range r.Calls {
			_, co := run.Compile(call.Expr)
			if co.Panic != "" {
				return "Compile panicked: " + co.Panic
			}
			if co.Failed && co.Cats&model.Syntax != 0 {
				return "in the grammar but rejected: " + co.String()
			}
		}
		return ""
	}
	_ = jv.Null
}
