package props

import (
	"testing"

	"pgregory.net/rapid"
)

// Every rapid property of this package is started through check(), so that
// the same property function can also be driven by Go's coverage-guided
// native fuzzer (rapid.MakeFuzz turns the fuzzer's byte string into the
// property's random draws). The thorough tier runs the Fuzz* targets below for
// a fixed time each; a failing input is saved by the fuzzer and is the replay
// file (the property additionally writes its usual JSON replay).
var (
	capturing bool
	captured  func(*rapid.T)
)

func check(t *testing.T, prop func(*rapid.T)) {
	if capturing {
		captured = prop
		return
	}
	rapid.Check(t, prop)
}

// propOf returns the property function that the given test would run.
func propOf(test func(*testing.T)) func(*rapid.T) {
	capturing, captured = true, nil
	defer func() { capturing = false }()
	test(nil)
	if captured == nil {
		panic("propOf: the test did not call check()")
	}
	return captured
}

// seedBytes adds deterministic pseudo-random byte strings of several lengths
// as the starting corpus (rapid skips a case whose byte string is too short
// for the property's draws).
func seedBytes(f *testing.F) {
	x := uint64(0x9E3779B97F4A7C15)
	next := func() uint64 {
		x += 0x9E3779B97F4A7C15
		z := x
		z = (z ^ (z >> 30)) * 0xBF58476D1CE4E5B9
		z = (z ^ (z >> 27)) * 0x94D049BB133111EB
		return z ^ (z >> 31)
	}
	for _, n := range []int{512, 1024, 2048, 4096, 4096, 8192, 8192, 8192} {
		b := make([]byte, n)
		for i := 0; i < n; i += 8 {
			v := next()
			for k := 0; k < 8 && i+k < n; k++ {
				b[i+k] = byte(v >> (8 * k))
			}
		}
		f.Add(b)
	}
}

func propFuzz(f *testing.F, test func(*testing.T)) {
	seedBytes(f)
	f.Fuzz(rapid.MakeFuzz(propOf(test)))
}

func FuzzC01Model(f *testing.F)      { propFuzz(f, TestC01_Model) }
func FuzzC02Funcs(f *testing.F)      { propFuzz(f, TestC02_Funcs) }
func FuzzC05Arith(f *testing.F)      { propFuzz(f, TestC05_Arith) }
func FuzzC10Precedence(f *testing.F) { propFuzz(f, TestC10_Precedence) }
func FuzzC11Strings(f *testing.F)    { propFuzz(f, TestC11_Strings) }
func FuzzC12Slice(f *testing.F)      { propFuzz(f, TestC12_Slice) }
func FuzzC13Sort(f *testing.F)       { propFuzz(f, TestC13_Sort) }
func FuzzC14Carriers(f *testing.F)   { propFuzz(f, TestC14_Carriers) }
func FuzzC17Identities(f *testing.F) { propFuzz(f, TestC17_Identities) }
func FuzzC19Let(f *testing.F)        { propFuzz(f, TestC19_Let) }
func FuzzC20Equality(f *testing.F)   { propFuzz(f, TestC20_Equality) }
