package props

import (
	"encoding/json"
	"fmt"
	"os"
	"testing"

	"verif/harness/model"
	"verif/harness/run"
)

// customReplays are replay kinds that need more than "call and compare".
var customReplays = map[string]func(r run.Replay) string{}

func doCall(c run.Call) run.Outcome {
	var data any
	if c.Doc != nil {
		data = c.Doc.Build()
	}
	switch c.API {
	case "compile":
		_, o := run.Compile(c.Expr)
		return o
	case "expr-search":
		e, o := run.Compile(c.Expr)
		if e == nil {
			return o
		}
		return run.ExprSearch(e, data)
	}
	return run.Search(c.Expr, data)
}

// replayOnce re-executes a saved case against the current tree, without
// rapid. Returns "" if the case passes now.
func replayOnce(r run.Replay) string {
	switch r.Kind {
	case "expect":
		if r.Expect == nil || len(r.Calls) == 0 {
			return "malformed replay"
		}
		var res model.Res
		if len(r.Expect.Errors) > 0 {
			res.Err = model.CatFromNames(r.Expect.Errors)
		} else if r.Expect.Value != nil {
			res.V = r.Expect.Value.V
		}
		for _, c := range r.Calls {
			if msg := run.CheckAgainst(res, doCall(c)); msg != "" {
				return msg
			}
		}
		return ""
	case "same":
		if len(r.Calls) < 2 {
			return "malformed replay"
		}
		first := doCall(r.Calls[0])
		for _, c := range r.Calls[1:] {
			if msg := run.SameOutcome(first, doCall(c), r.Loose); msg != "" {
				return msg
			}
		}
		return ""
	case "terminates":
		done := make(chan string, 1)
		go func() {
			for _, c := range r.Calls {
				o := doCall(c)
				if o.Panic != "" {
					done <- "panic: " + o.Panic
					return
				}
			}
			done <- ""
		}()
		msg, ok := run.AwaitBounded(done)
		if !ok {
			return "library call did not return within " + run.HangLimit.String() + " of CPU time"
		}
		return msg
	case "nopanic":
		for _, c := range r.Calls {
			o := doCall(c)
			if o.Panic != "" {
				return "panic: " + o.Panic
			}
			if o.FmtPanic != "" {
				return "error formatting panicked: " + o.FmtPanic
			}
		}
		return ""
	}
	if f, ok := customReplays[r.Kind]; ok {
		return f(r)
	}
	return "unknown replay kind " + r.Kind
}

func TestReplay(t *testing.T) {
	path := os.Getenv("VERIF_REPLAY")
	if path == "" {
		t.Skip("no VERIF_REPLAY")
	}
	b, err := os.ReadFile(path)
	if err != nil {
		t.Fatalf("cannot read replay: %v", err)
	}
	var r run.Replay
	if err := json.Unmarshal(b, &r); err != nil {
		t.Fatalf("cannot decode replay: %v", err)
	}
	// every replay runs under the CPU-time bound: a saved case of any kind may
	// be one on which the library (again) does not return
	done := make(chan string, 1)
	go func() { done <- replayOnce(r) }()
	msg, ok := run.AwaitBounded(done)
	if !ok {
		msg = "library call did not return within " + run.HangLimit.String() + " of CPU time"
	}
	if msg != "" {
		fmt.Printf("REPLAY-VIOLATION %s/%s: %s\n", r.Property, r.Check, msg)
		t.Fail()
		if !ok {
			os.Exit(1) // the stuck goroutine cannot be stopped
		}
		return
	}
	fmt.Println("REPLAY-OK")
}
