package props

import (
	"bufio"
	"os"
	"regexp"
	"strings"
	"sync"
)

// Known findings: genuine defects that are recorded rather than repaired are
// listed in /verif/KNOWN_FINDINGS.txt. Each has a key naming a shape predicate
// in the property code; while the finding is open, generated cases of that
// shape are excluded by construction (and counted), so the search continues
// behind the defect. The driver re-runs each finding's replay first and passes
// the keys that still fail in VERIF_KF_OPEN; a finding whose replay passes is
// no longer excluded.
var (
	kfOnce sync.Once
	kfKeys map[string]bool
)

func kfOpen(key string) bool {
	kfOnce.Do(func() {
		kfKeys = map[string]bool{}
		if v, ok := os.LookupEnv("VERIF_KF_OPEN"); ok {
			for _, k := range strings.Split(v, ",") {
				if k != "" {
					kfKeys[k] = true
				}
			}
			return
		}
		// not run by the driver: every listed finding counts as open
		f, err := os.Open("/verif/KNOWN_FINDINGS.txt")
		if err != nil {
			return
		}
		defer f.Close()
		re := regexp.MustCompile(`^finding: property=\S+ key=(\S+) `)
		sc := bufio.NewScanner(f)
		for sc.Scan() {
			if m := re.FindStringSubmatch(sc.Text()); m != nil {
				kfKeys[m[1]] = true
			}
		}
	})
	return kfKeys[key]
}
