package props

import (
	"encoding/json"
	"fmt"
	"os"
	"path/filepath"
	"runtime"
	"strconv"
	"strings"
	"sync"
	"testing"
	"time"

	"github.com/woodsbury/jmespath"
	"pgregory.net/rapid"

	"verif/harness/ast"
	"verif/harness/gen"
	"verif/harness/jv"
	"verif/harness/model"
	"verif/harness/run"
)

type c07Op struct {
	Kind string `json:"kind"` // search | compile | expr
	Expr int    `json:"expr"`
	Doc  int    `json:"doc"`
}

type c07Scenario struct {
	Exprs      []string   `json:"exprs"`
	Loose      []bool     `json:"loose"`
	Multi      [][]bool   `json:"multi"` // [expr][doc]
	Docs       []run.Node `json:"docs"`
	Goroutines [][]c07Op  `json:"goroutines"`
	Procs      int        `json:"gomaxprocs"`
}

// c07Run executes the scenario: all goroutines are released together; every
// outcome must equal the outcome of the same call run alone beforehand.
func c07Run(sc c07Scenario) string {
	old := runtime.GOMAXPROCS(sc.Procs)
	defer runtime.GOMAXPROCS(old)
	docs := make([]any, len(sc.Docs))
	snaps := make([]string, len(sc.Docs))
	for i, d := range sc.Docs {
		docs[i] = d.Build()
		snaps[i] = run.SnapshotFull(docs[i])
	}
	exprs := make([]*jmespath.Expression, len(sc.Exprs))
	dumps := make([]string, len(sc.Exprs))
	for i, text := range sc.Exprs {
		e, co := run.Compile(text)
		if co.Panic != "" {
			return "Compile panicked: " + co.Panic
		}
		exprs[i] = e
		if e != nil {
			dumps[i] = run.DumpExpression(e)
		}
	}
	// sequential reference outcomes
	alone := make([][]run.Outcome, len(sc.Exprs))
	for i, text := range sc.Exprs {
		alone[i] = make([]run.Outcome, len(docs))
		for j := range docs {
			alone[i][j] = run.Search(text, docs[j])
		}
	}
	var wg sync.WaitGroup
	start := make(chan struct{})
	errs := make(chan string, len(sc.Goroutines))
	for g, ops := range sc.Goroutines {
		wg.Add(1)
		go func(g int, ops []c07Op) {
			defer wg.Done()
			<-start
			for k, op := range ops {
				var o run.Outcome
				switch op.Kind {
				case "search":
					o = run.Search(sc.Exprs[op.Expr], docs[op.Doc])
				case "compile":
					e, co := run.Compile(sc.Exprs[op.Expr])
					if (e == nil) != (exprs[op.Expr] == nil) {
						errs <- fmt.Sprintf("goroutine %d op %d: concurrent Compile of %q disagrees with the sequential one: %s", g, k, sc.Exprs[op.Expr], co)
						return
					}
					if e == nil {
						continue
					}
					o = run.ExprSearch(e, docs[op.Doc])
				default:
					if exprs[op.Expr] == nil {
						continue
					}
					o = run.ExprSearch(exprs[op.Expr], docs[op.Doc])
				}
				if msg := run.SameOutcomeMF(alone[op.Expr][op.Doc], o, sc.Loose[op.Expr], sc.Multi[op.Expr][op.Doc]); msg != "" {
					errs <- fmt.Sprintf("goroutine %d op %d (%s %q on document %d): outcome differs from the same call run alone: %s", g, k, op.Kind, sc.Exprs[op.Expr], op.Doc, msg)
					return
				}
			}
		}(g, ops)
	}
	close(start)
	// Wait for the goroutines. If the process uses (almost) no CPU for 30
	// consecutive seconds while some of them are still inside the library, they
	// are blocked on one another: no amount of waiting will bring them back.
	// (Idle CPU, not elapsed time, is the signal: on a busy machine work may
	// be slow, but it still consumes CPU.)
	finished := make(chan struct{})
	go func() { wg.Wait(); close(finished) }()
	idle, last := 0, run.ProcessCPU()
	tick := time.NewTicker(time.Second)
	defer tick.Stop()
waiting:
	for {
		select {
		case <-finished:
			break waiting
		case <-tick.C:
			now := run.ProcessCPU()
			// (the harness's own watchdogs use a few milliseconds per second;
			// one working goroutine uses a thousand)
			if now-last < 100*time.Millisecond {
				idle++
			} else {
				idle = 0
			}
			last = now
			if idle >= 30 {
				return fmt.Sprintf("BLOCKED: %d goroutines started, some never returned: the process has used no CPU for 30 s while calls are outstanding (the calls block one another)", len(sc.Goroutines))
			}
		}
	}
	close(errs)
	for m := range errs {
		return m
	}
	for i := range docs {
		if run.SnapshotFull(docs[i]) != snaps[i] {
			return fmt.Sprintf("document %d was modified", i)
		}
	}
	for i, e := range exprs {
		if e != nil && run.DumpExpression(e) != dumps[i] {
			return fmt.Sprintf("compiled expression %d was modified", i)
		}
	}
	return ""
}

// objectChain returns a field path (depth <= 3) to an object inside doc.
func objectChain(t *rapid.T, doc jv.Val) *ast.Chain {
	var cs [][]string
	var walk func(v jv.Val, path []string, depth int)
	walk = func(v jv.Val, path []string, depth int) {
		if v.K == jv.Obj && len(path) > 0 {
			cs = append(cs, append([]string{}, path...))
		}
		if v.K == jv.Obj && depth < 3 {
			for _, m := range v.O {
				walk(m.V, append(path, m.K), depth+1)
			}
		}
	}
	walk(doc, nil, 0)
	if len(cs) == 0 {
		return nil
	}
	p := cs[rapid.IntRange(0, len(cs)-1).Draw(t, "objpath")]
	c := ast.F(p[0])
	for _, k := range p[1:] {
		c = c.With(ast.Step{Kind: ast.SField, Name: k})
	}
	return c
}

func c07CurrentFile() string {
	return filepath.Join(getenv("VERIF_OUT_DIR", os.TempDir()), fmt.Sprintf("C07-race-s%s-current.json", getenv("VERIF_SHARD", "0")))
}

// C07: compiled expressions and Search are safe for concurrent use.
// Built with -race: a detected data race makes the process exit (GORACE
// halt_on_error) and the driver reports the scenario that was running.
func TestC07_Concurrent(t *testing.T) {
	c := collector("C07", "concurrent")
	check(t, func(t *rapid.T) {
		nd := rapid.IntRange(1, 3).Draw(t, "ndocs")
		vals := make([]jv.Val, nd)
		sc := c07Scenario{}
		for i := range vals {
			vals[i] = gen.Doc(t, gen.DocCfg{MaxDepth: 3, MaxFan: 4})
			sc.Docs = append(sc.Docs, withSpareCapacity(t, run.FromVal(vals[i])))
		}
		ne := rapid.IntRange(1, 4).Draw(t, "nexprs")
		cfg := gen.ExprCfg{MaxDepth: 2, MaxSteps: 4, Funcs: true, Let: true, Arith: true, Compare: true}
		scratch := false
		// rarely: large arrays (beyond the sizes at which buffers are pooled or
		// algorithms switch) sorted, grouped and searched by many goroutines,
		// next to calls of the same functions that fail half way
		if rapid.IntRange(0, 119).Draw(t, "largecase") == 0 {
			n := gen.Pick(t, "largelen", []int{1024, 1500, 3000, 4097})
			good := make([]jv.Val, n)
			bad := make([]jv.Val, n)
			strs := make([]jv.Val, n)
			for i := range good {
				k := jv.VInt(int64((i * 7919) % n))
				good[i] = jv.VObj([]jv.Member{{K: "k", V: k}, {K: "i", V: jv.VInt(int64(i))}})
				bad[i] = good[i]
				strs[i] = jv.VObj([]jv.Member{{K: "k", V: jv.VStr(strconv.Itoa((i * 31) % n))}, {K: "i", V: jv.VInt(int64(i))}})
			}
			at := rapid.IntRange(1, n-1).Draw(t, "badat")
			bad[at] = jv.VObj([]jv.Member{{K: "k", V: jv.VStr("x")}, {K: "i", V: jv.VInt(int64(at))}})
			big := jv.VObj([]jv.Member{{K: "good", V: jv.VArr(good)}, {K: "bad", V: jv.VArr(bad)}, {K: "strs", V: jv.VArr(strs)}})
			vals = []jv.Val{big}
			nd = 1
			sc.Docs = []run.Node{run.FromVal(big)}
			pool := []string{"sort_by(bad, &k)", "sort_by(good, &k)[*].i", "sort_by(strs, &k)[*].i", "sort(good[*].k)", "sort(bad[*].k)", "max_by(good, &k).i", "min_by(bad, &k)", "group_by(good, &to_string(k))", "reverse(good)[0]",
				"sort_by(good, &k)[0]", "sort_by(good, &i)[-1]", "good[?k > `10`] | length(@)", "map(&k, bad) | sort(@)", "zip(good, strs)[-1]", "join(',', strs[*].k) | length(@)", "sum(good[*].k)", "avg(bad[*].k)", "good[::-1][0]", "good[*].k | [0]"}
			ne = rapid.IntRange(2, 4).Draw(t, "nlarge")
			for i := 0; i < ne; i++ {
				sc.Exprs = append(sc.Exprs, gen.Pick(t, "largeexpr", pool))
				sc.Loose = append(sc.Loose, false)
				sc.Multi = append(sc.Multi, []bool{false})
			}
			scratch = true
			ne = 0
		}
		// rarely: values nested far deeper than anything else here (beyond the
		// depths at which an implementation may switch to bookkeeping for long
		// recursions), equal or different only at the bottom, compared by many
		// goroutines at once
		if ne > 0 && rapid.IntRange(0, 39).Draw(t, "deepcase") == 0 {
			depth := gen.Pick(t, "deepdepth", []int{70, 130, 300, 1100})
			shape := rapid.IntRange(0, 2).Draw(t, "deepshape")
			nest := func(leaf jv.Val) jv.Val {
				v := leaf
				for i := 0; i < depth; i++ {
					if shape == 0 || (shape == 2 && i%2 == 0) {
						v = jv.VObj([]jv.Member{{K: "k", V: v}})
					} else {
						v = jv.VArr([]jv.Val{v})
					}
				}
				return v
			}
			deep := jv.VObj([]jv.Member{{K: "p", V: nest(jv.VInt(1))}, {K: "q", V: nest(jv.VInt(2))}, {K: "r", V: nest(jv.VInt(1))}, {K: "s", V: nest(jv.VNumText("1.0"))}})
			vals = []jv.Val{deep}
			nd = 1
			sc.Docs = []run.Node{run.FromVal(deep)}
			pool := []string{"p == q", "p != q", "p == r", "q == r", "p == s", "contains([q, q], p)", "contains([q, r], p)", "[p, q, r][?@ == $.p] | length(@)", "{a: p == q, b: q == p, c: p == r}", "[q][?@ != $.p] | length(@)", "[p == q, q != r, s == q]"}
			ne = rapid.IntRange(2, 4).Draw(t, "ndeep")
			for i := 0; i < ne; i++ {
				sc.Exprs = append(sc.Exprs, gen.Pick(t, "deepexpr", pool))
				sc.Loose = append(sc.Loose, false)
				sc.Multi = append(sc.Multi, []bool{false})
			}
			scratch = true
			ne = 0
		}
		for i := 0; i < ne; i++ {
			g := &gen.G{T: t, Root: vals[0], Cfg: cfg}
			var e ast.Expr
			switch rapid.IntRange(0, 5).Draw(t, "kind") {
			case 5:
				// long literals that differ from expression to expression:
				// whatever the parser keeps between calls (caches, pools,
				// scratch buffers) is then shared by goroutines that parse
				// different texts at the same time
				salt := rapid.IntRange(0, 3).Draw(t, "salt")
				n := rapid.IntRange(20, 60).Draw(t, "litlen")
				arr := make([]jv.Val, n)
				for k := range arr {
					arr[k] = jv.VInt(int64(100*i + 10*salt + k))
				}
				obj := jv.VObj([]jv.Member{{K: "id", V: jv.VInt(int64(1000*i + salt))}, {K: "pad", V: jv.VStr(strings.Repeat("p", n+20))}, {K: "list", V: jv.VArr(arr[:5])}})
				strs := make([]jv.Val, n)
				for k := range strs {
					strs[k] = jv.VStr("name-" + strconv.Itoa((k*37+i)%n))
				}
				needle := strs[rapid.IntRange(0, n-1).Draw(t, "needle")]
				e = &ast.Chain{Head: ast.Head{Kind: ast.HMultiList, Items: []ast.Expr{
					// built-ins applied to a long literal of the shared Expression
					// (anything derived from a literal lazily and kept on the
					// node is then built by several goroutines at once)
					ast.Call("contains", ast.A(ast.Lit(jv.VArr(strs))), ast.A(ast.Lit(needle))),
					ast.Call("contains", ast.A(ast.Lit(jv.VArr(strs))), ast.A(ast.RawS("absent"))),
					ast.Call("sort", ast.A(ast.Lit(jv.VArr(strs)))).With(ast.Step{Kind: ast.SIndex, Index: 0}),
					ast.Call("length", ast.A(ast.Call("join", ast.A(ast.RawS(",")), ast.A(ast.Lit(jv.VArr(strs)))))),
					ast.Call("max", ast.A(ast.Lit(jv.VArr(arr)))),
					ast.Lit(jv.VArr(arr)).With(ast.Step{Kind: ast.SFilter, Cond: ast.Bin(">", ast.Cur(), ast.Lit(jv.VInt(int64(100*i+10*salt+n/2))))}, ast.Step{Kind: ast.SIndex, Index: 0}),
					ast.Lit(jv.VArr(arr)).With(ast.Step{Kind: ast.SIndex, Index: int64(rapid.IntRange(0, n-1).Draw(t, "litidx"))}),
					ast.Lit(obj).With(ast.Step{Kind: ast.SField, Name: "id"}),
					ast.Call("length", ast.A(ast.Lit(jv.VStr(strings.Repeat("s", 64+i+salt))))),
					ast.RawS(strings.Repeat("r", 70+i) + strconv.Itoa(salt)),
					// short and long literals that need decoding and differ per expression
					ast.RawS("g" + strconv.Itoa(i) + "'i" + strconv.Itoa(salt)),
					ast.RawS("back\\slash" + strconv.Itoa(10*i+salt) + "'" + strings.Repeat("x", i)),
					ast.Lit(jv.VStr("q\"" + strconv.Itoa(i) + "\n" + strconv.Itoa(salt))),
					g.Expr(vals[0], 1)}}}
			case 0:
				e = ast.Call(gen.Pick(t, "fn", []string{"sort", "reverse", "sort_by", "group_by", "merge", "join", "to_string"}), ast.A(g.Chain(vals[0], 1)))
				if c, ok := e.(*ast.Chain); ok && c.Head.Name == "merge" {
					// merge of objects that belong to the shared document and to the shared AST
					objs := []ast.Expr{ast.Cur(), ast.Lit(jv.VObj([]jv.Member{{K: "zz", V: jv.VInt(1)}}))}
					if oc := objectChain(t, vals[0]); oc != nil {
						objs = append(objs, oc, oc)
					}
					n := rapid.IntRange(2, 3).Draw(t, "nmerge")
					c.Head.Args = nil
					for k := 0; k < n; k++ {
						c.Head.Args = append(c.Head.Args, ast.A(gen.Pick(t, "mergearg", objs)))
					}
				}
				if c, ok := e.(*ast.Chain); ok && (c.Head.Name == "sort_by" || c.Head.Name == "group_by") {
					c.Head.Args = append(c.Head.Args, ast.Ref(ast.Call("to_string", ast.A(ast.Cur()))))
				}
				if c, ok := e.(*ast.Chain); ok && c.Head.Name == "join" {
					c.Head.Args = []ast.Arg{ast.A(ast.RawS(",")), c.Head.Args[0]}
				}
			case 1:
				e = &ast.Let{Names: []string{"x", "y"}, Vals: []ast.Expr{g.Expr(vals[0], 1), ast.Lit(jv.VArr([]jv.Val{jv.VInt(3), jv.VInt(1)}))}, Body: &ast.Chain{Head: ast.Head{Kind: ast.HMultiList, Items: []ast.Expr{ast.Var("x"), ast.Call("sort", ast.A(ast.Var("y"))), g.Expr(vals[0], 1)}}}}
			default:
				e = g.Expr(vals[0], 0)
			}
			if model.Static(e).RefAtValue && kfOpen("expref-at-value-position") {
				e = ast.Cur()
			}
			loose := enumeratesMembers(e)
			multi := make([]bool, nd)
			skip := false
			for j, v := range vals {
				r, _ := model.Eval(e, v)
				if loose && r.Undet != "" {
					skip = true
				}
				multi[j] = r.Undet != "" || r.Err.Count() > 1
			}
			if skip {
				e = ast.Cur()
				loose = false
				multi = make([]bool, nd)
			}
			ast.Walk(e, func(x ast.Expr) {
				switch x := x.(type) {
				case *ast.Let:
					scratch = true
				case *ast.Chain:
					if x.Head.Kind == ast.HCall || (x.Head.Kind == ast.HLiteral && (x.Head.Lit.K == jv.Arr || x.Head.Lit.K == jv.Obj)) {
						scratch = true
					}
				}
			})
			sc.Exprs = append(sc.Exprs, ast.Render(e))
			sc.Loose = append(sc.Loose, loose)
			sc.Multi = append(sc.Multi, multi)
		}
		ng := rapid.IntRange(4, 16).Draw(t, "goroutines")
		nops := rapid.IntRange(10, 60).Draw(t, "ops")
		if ne == 0 {
			ne = len(sc.Exprs)
			nops = rapid.IntRange(4, 12).Draw(t, "largeops")
		}
		shared := false
		for g := 0; g < ng; g++ {
			ops := make([]c07Op, nops)
			for k := range ops {
				kind := gen.Pick(t, "opkind", []string{"expr", "expr", "expr", "search", "compile"})
				ops[k] = c07Op{Kind: kind, Expr: rapid.IntRange(0, ne-1).Draw(t, "e"), Doc: rapid.IntRange(0, nd-1).Draw(t, "d")}
				if kind == "expr" && g > 0 {
					shared = true
				}
			}
			sc.Goroutines = append(sc.Goroutines, ops)
		}
		sc.Procs = gen.Pick(t, "procs", []int{2, 4, 16})
		c.Case()
		// leave the scenario on disk: a data race report ends the process
		rp := run.Replay{Property: "C07", Check: "concurrent", Kind: "custom:c07", Calls: []run.Call{{API: "search", Expr: sc.Exprs[0], Doc: &sc.Docs[0]}}, Message: "data race reported by the Go race detector while this scenario ran", Extra: mustJSON(sc)}
		if b, err := json.Marshal(rp); err == nil {
			_ = os.WriteFile(c07CurrentFile(), b, 0o644)
		}
		run.Watch(c, "concurrent", rp.Calls...)
		if msg := c07Run(sc); msg != "" {
			rp.Message = msg
			rp.Extra = mustJSON(sc)
			if strings.HasPrefix(msg, "BLOCKED:") {
				c.Abort(rp)
			}
			c.Fail(t, rp, "outcome")
			return
		}
		_ = os.Remove(c07CurrentFile())
		c.Label("ok")
		if shared && scratch {
			c.NonTrivial(fmt.Sprint(sc.Exprs, sc.Goroutines)+sc.Docs[0].Text(), func() any {
				return map[string]any{"exprs": sc.Exprs, "documents": len(sc.Docs), "goroutines": len(sc.Goroutines), "ops_per_goroutine": nops, "gomaxprocs": sc.Procs}
			})
		}
	})
}

func init() {
	customReplays["custom:c07"] = func(r run.Replay) string {
		var sc c07Scenario
		if err := jsonUnmarshal(r.Extra, &sc); err != nil {
			return "malformed replay"
		}
		// schedule-dependent: repeat
		for i := 0; i < 200; i++ {
			if msg := c07Run(sc); msg != "" {
				return msg // (a BLOCKED one ends the replay process right away: see TestReplay)
			}
		}
		return ""
	}
}

// C07 (deep parses): deeply nested expressions parsed by many goroutines at
// once. Limits, counters and pools that a parser shares between calls add up
// across goroutines; every call must still return what it returns alone. Run
// with the plain binary (the race detector makes deep recursion very slow;
// what is checked here is the outcome).
func TestC07_DeepParse(t *testing.T) {
	c := collector("C07", "deep-parse")
	check(t, func(t *rapid.T) {
		sc := c07Scenario{}
		doc := jv.VObj([]jv.Member{{K: "a", V: jv.VInt(1)}, {K: "b", V: jv.VNull()}})
		sc.Docs = []run.Node{run.FromVal(doc)}
		ne := rapid.IntRange(2, 3).Draw(t, "ndeep")
		total := 0
		for i := 0; i < ne; i++ {
			d := gen.Pick(t, "depth", []int{5000, 20000, 40000})
			inner := gen.Pick(t, "inner", []string{"a", "b", "`1`", "@"})
			var text string
			switch rapid.IntRange(0, 5).Draw(t, "deepkind") {
			case 0:
				text = strings.Repeat("(", d) + inner + strings.Repeat(")", d)
			case 1:
				text = strings.Repeat("!", d) + inner
			case 2:
				text = strings.Repeat("[", d) + inner + strings.Repeat("]", d) + "[0]"
			case 3:
				text = strings.Repeat("not_null(", d/2) + inner + strings.Repeat(")", d/2)
			case 4:
				text = strings.Repeat("{k: ", d/2) + inner + strings.Repeat("}", d/2) + ".k"
			default:
				text = inner + strings.Repeat(" || "+inner, d/2)
			}
			total += d
			sc.Exprs = append(sc.Exprs, text)
			sc.Loose = append(sc.Loose, false)
			sc.Multi = append(sc.Multi, []bool{false})
		}
		ng := gen.Pick(t, "goroutines", []int{8, 12, 16, 24})
		nops := rapid.IntRange(2, 4).Draw(t, "ops")
		for g := 0; g < ng; g++ {
			ops := make([]c07Op, nops)
			for k := range ops {
				ops[k] = c07Op{Kind: gen.Pick(t, "opkind", []string{"search", "compile"}), Expr: rapid.IntRange(0, ne-1).Draw(t, "e")}
			}
			sc.Goroutines = append(sc.Goroutines, ops)
		}
		sc.Procs = 16
		c.Case()
		if msg := c07Run(sc); msg != "" {
			short := sc
			if strings.HasPrefix(msg, "BLOCKED:") {
				c.Abort(run.Replay{Check: "deep-parse", Kind: "custom:c07", Calls: []run.Call{{API: "search", Expr: truncate(sc.Exprs[0], 200), Doc: &sc.Docs[0]}}, Message: truncate(msg, 600), Extra: mustJSON(short)})
			}
			c.Fail(t, run.Replay{Check: "deep-parse", Kind: "custom:c07", Calls: []run.Call{{API: "search", Expr: truncate(sc.Exprs[0], 200), Doc: &sc.Docs[0]}}, Message: truncate(msg, 600), Extra: mustJSON(short)}, "deep-parse")
			return
		}
		c.Label("ok")
		c.NonTrivial(fmt.Sprint(total, ng, nops, len(sc.Exprs[0])), func() any {
			return map[string]any{"expressions": ne, "summed_nesting_depth": total, "goroutines": ng, "ops_per_goroutine": nops}
		})
	})
}

// C07 (heavy calls): every goroutine runs one expensive call at the same time
// -- large sorts, groupings and mappings nested in each other's expression
// references, on a shared Expression and document. Anything that serialises or
// rations such work (locks, semaphores, pools sized by the number of
// processors) must still let every call finish with the outcome it has alone.
// Plain binary; the number of goroutines is 1x, 1.5x and 2x GOMAXPROCS.
func TestC07_Heavy(t *testing.T) {
	c := collector("C07", "heavy")
	check(t, func(t *rapid.T) {
		n := gen.Pick(t, "len", []int{1024, 1100, 2048})
		good := make([]jv.Val, n)
		strs := make([]jv.Val, n)
		for i := range good {
			good[i] = jv.VObj([]jv.Member{{K: "k", V: jv.VInt(int64((i * 7919) % n))}, {K: "i", V: jv.VInt(int64(i))}})
			strs[i] = jv.VObj([]jv.Member{{K: "k", V: jv.VStr(strconv.Itoa((i * 31) % n))}, {K: "i", V: jv.VInt(int64(i))}})
		}
		doc := jv.VObj([]jv.Member{{K: "good", V: jv.VArr(good)}, {K: "strs", V: jv.VArr(strs)}})
		sc := c07Scenario{Docs: []run.Node{run.FromVal(doc)}}
		pool := []string{"sort_by(good, &sort_by($.strs, &k)[0].k)[0].i", "sort_by(strs, &sort_by($.good, &k)[-1].i)[0].i", "max_by(good, &length(sort_by($.strs, &k)))",
			"sort_by(good, &max_by($.good, &k).k)[0].i", "length(group_by(good, &to_string(sort_by($.strs, &k)[0].i)))", "map(&sort_by($.good, &k)[0].i, strs[:1100]) | length(@)",
			"sort_by(good, &k)[*].i | length(@)", "sort_by(strs, &k)[0]", "length(sort(good[*].k))"}
		ne := rapid.IntRange(1, 3).Draw(t, "nexprs")
		for i := 0; i < ne; i++ {
			sc.Exprs = append(sc.Exprs, gen.Pick(t, "heavyexpr", pool))
			sc.Loose = append(sc.Loose, false)
			sc.Multi = append(sc.Multi, []bool{false})
		}
		procs := runtime.GOMAXPROCS(0)
		ng := gen.Pick(t, "goroutines", []int{procs, procs + procs/2, 2 * procs})
		for g := 0; g < ng; g++ {
			sc.Goroutines = append(sc.Goroutines, []c07Op{{Kind: gen.Pick(t, "opkind", []string{"expr", "search"}), Expr: rapid.IntRange(0, ne-1).Draw(t, "e")}})
		}
		sc.Procs = procs
		c.Case()
		if msg := c07Run(sc); msg != "" {
			rp := run.Replay{Check: "heavy", Kind: "custom:c07", Calls: []run.Call{{API: "search", Expr: sc.Exprs[0], Doc: &sc.Docs[0]}}, Message: truncate(msg, 600), Extra: mustJSON(sc)}
			if strings.HasPrefix(msg, "BLOCKED:") {
				c.Abort(rp) // the blocked calls keep what they hold: nothing further can run in this process
			}
			c.Fail(t, rp, "heavy")
			return
		}
		c.Label("ok")
		c.NonTrivial(fmt.Sprint(sc.Exprs, ng, n), func() any { return map[string]any{"expressions": sc.Exprs, "goroutines": ng, "records": n} })
	})
}
