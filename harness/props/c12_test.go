package props

import (
	"fmt"
	"strconv"
	"testing"

	"pgregory.net/rapid"

	"verif/harness/ast"
	"verif/harness/gen"
	"verif/harness/jv"
	"verif/harness/model"
	"verif/harness/run"
)

var mixedRunes = []rune{'a', 'b', 'é', 'ß', '日', '😀', '0', ' ', '�', 0x7f, 0x80, 0x7ff, 0x800, 0xd7ff, 0xe000, 0xffff, 0x10000, 0x10ffff,
	// building blocks of grapheme clusters (flags, ZWJ sequences, modifiers, jamo, keycaps): still single code points
	0x1f1e9, 0x1f1ea, 0x1f1eb, 0x1f1e9, 0x1f1ea, 0x200d, 0xfe0f, 0x1f3fb, 0x1f468, 0x1100, 0x1161, 0x20e3}

// sliceSubject draws an array or a mixed-width string of length n.
func sliceSubject(t *rapid.T, n int) jv.Val {
	if rapid.Bool().Draw(t, "isString") {
		rs := make([]rune, n)
		for i := range rs {
			rs[i] = gen.Pick(t, "r", mixedRunes)
		}
		return jv.VStr(string(rs))
	}
	a := make([]jv.Val, n)
	for i := range a {
		switch rapid.IntRange(0, 9).Draw(t, "el") {
		case 0:
			a[i] = jv.VNull()
		case 1:
			a[i] = jv.VObj([]jv.Member{{K: "a", V: jv.VInt(int64(i))}})
		case 2:
			a[i] = jv.VStr("s" + strconv.Itoa(i))
		default:
			a[i] = jv.VInt(int64(i))
		}
	}
	return jv.VArr(a)
}

// longSubject builds an array or a mixed-width string of length n from one
// drawn offset (long subjects are not drawn element by element).
func longSubject(t *rapid.T, n int) jv.Val {
	off := rapid.IntRange(0, 96).Draw(t, "longoff")
	if rapid.Bool().Draw(t, "isString") {
		rs := make([]rune, n)
		for i := range rs {
			rs[i] = mixedRunes[(i*7+off)%len(mixedRunes)]
		}
		return jv.VStr(string(rs))
	}
	a := make([]jv.Val, n)
	for i := range a {
		if (i+off)%97 == 5 {
			a[i] = jv.VNull()
		} else {
			a[i] = jv.VInt(int64(i))
		}
	}
	return jv.VArr(a)
}

func optHostile(t *rapid.T, label string, n int) *int64 {
	if rapid.IntRange(0, 3).Draw(t, label+"-absent") == 0 {
		return nil
	}
	return ast.I64(gen.HostileInt(t, n))
}

func sliceNonTrivial(n int, s ast.Step, walk int) bool {
	odd := false
	for _, p := range []*int64{s.Start, s.Stop} {
		if p == nil || *p < 0 || *p > int64(n) {
			odd = true
		}
	}
	if s.Stride != nil && (*s.Stride > 1 || *s.Stride < -1) {
		odd = true
	}
	if !odd {
		return false
	}
	if walk > 0 {
		return true
	}
	// exactly on an emptiness boundary
	if s.Start != nil && s.Stop != nil && *s.Start == *s.Stop {
		return true
	}
	if s.Start != nil && *s.Start == int64(-n-1) {
		return true
	}
	if s.Stop != nil && *s.Stop == int64(n) {
		return true
	}
	return false
}

// C12: slices select exactly the elements of the start:stop:step walk.
func TestC12_Slice(t *testing.T) {
	c := collector("C12", "slice")
	maxN := 12
	if thorough() {
		maxN = 40
	}
	check(t, func(t *rapid.T) {
		n := rapid.IntRange(0, maxN).Draw(t, "n")
		var subj jv.Val
		switch lk := rapid.IntRange(0, 999).Draw(t, "longkind"); {
		case lk < 100:
			// subjects around the limits of the 8-bit kinds, so that a bound of
			// 127, 128, 255 or 256 lies inside the subject
			n = gen.Pick(t, "n8", []int{126, 127, 128, 129, 130, 150, 254, 255, 256, 257, 258, 300})
			subj = longSubject(t, n)
			c.Label("subject-around-8-bit-limits")
		case lk == 100:
			n = gen.Pick(t, "n16", []int{32766, 32767, 32768, 32769, 32770, 65534, 65535, 65536, 65537, 65540})
			subj = longSubject(t, n)
			c.Label("subject-around-16-bit-limits")
		default:
			subj = sliceSubject(t, n)
		}
		s := ast.Step{Kind: ast.SSlice, Start: optHostile(t, "start", n), Stop: optHostile(t, "stop", n)}
		if rapid.IntRange(0, 2).Draw(t, "hasStep") > 0 {
			st := gen.HostileInt(t, 3)
			if st == 0 && rapid.IntRange(0, 4).Draw(t, "keep0") > 0 {
				st = 1
			}
			s.Stride = ast.I64(st)
		}
		// placement: head of chain on the subject, after a field, inside a
		// projection right-hand side, followed by further steps
		var e ast.Expr
		var doc jv.Val
		place := rapid.IntRange(0, 6).Draw(t, "place")
		switch place {
		case 0:
			doc = subj
			e = &ast.Chain{Head: ast.Head{Kind: ast.HImplicit}, Steps: []ast.Step{s}}
		case 1:
			doc = jv.VObj([]jv.Member{{K: "a", V: subj}})
			e = ast.F("a").With(s)
		case 2: // followed by a step: projection for arrays, plain string otherwise
			doc = jv.VObj([]jv.Member{{K: "a", V: subj}})
			next := gen.Pick(t, "next", []ast.Step{{Kind: ast.SField, Name: "a"}, {Kind: ast.SIndex, Index: 0}, {Kind: ast.SMultiList, Items: []ast.Expr{ast.Cur()}}, {Kind: ast.SSlice, Start: ast.I64(0), Stop: ast.I64(1)}})
			e = ast.F("a").With(s, next)
		case 3: // inside the right-hand side of a projection
			doc = jv.VObj([]jv.Member{{K: "a", V: jv.VArr([]jv.Val{subj, subj})}})
			e = ast.F("a").With(ast.Step{Kind: ast.SListStar}, s)
		case 4: // piped
			doc = jv.VObj([]jv.Member{{K: "a", V: subj}})
			e = ast.Bin("|", ast.F("a"), &ast.Chain{Head: ast.Head{Kind: ast.HImplicit}, Steps: []ast.Step{s}})
		case 5: // on a literal
			doc = jv.VNull()
			e = ast.Lit(subj).With(s)
		default: // the same array walked several times in one expression
			doc = jv.VObj([]jv.Member{{K: "a", V: subj}})
			s2 := ast.Step{Kind: ast.SSlice, Start: optHostile(t, "start2", n), Stop: optHostile(t, "stop2", n)}
			if rapid.Bool().Draw(t, "step2") {
				s2.Stride = ast.I64(int64(gen.Pick(t, "stride2", []int{1, 2, -1, -2, 3})))
			}
			e = &ast.Chain{Head: ast.Head{Kind: ast.HMultiList, Items: []ast.Expr{ast.F("a").With(s), ast.F("a").With(s2), ast.F("a").With(s), ast.F("a")}}}
		}
		text := ast.RenderWith(e, gen.Chooser{T: t})
		c.Case()
		res, _ := model.Eval(e, doc)
		if res.Undet != "" {
			c.Skip(res.Undet)
			return
		}
		if modelDiff(t, c, "slice", e, text, doc, res) {
			return
		}
		if s.Stride != nil && *s.Stride == 0 {
			c.Label("step-0")
			c.NonTrivial(text+"\x00"+doc.JSON(), nil)
			return
		}
		walk := len(model.SliceIndices(n, s.Start, s.Stop, s.Stride))
		c.Label(fmt.Sprintf("place-%d", place))
		if subj.K == jv.Str {
			c.Label("string")
		} else {
			c.Label("array")
		}
		if sliceNonTrivial(n, s, walk) {
			c.NonTrivial(text+"\x00"+doc.JSON(), func() any {
				return map[string]any{"expr": text, "doc": doc.JSON(), "result": res.V.JSON()}
			})
		}
	})
}

// TestC12_Exhaustive enumerates n <= 6 x (start, stop in -8..8 or absent) x
// (step in -4..4 or absent) on arrays and strings completely (thorough tier).
func TestC12_Exhaustive(t *testing.T) {
	c := collector("C12", "exhaustive")
	maxN, lim := 3, int64(5)
	if thorough() {
		maxN, lim = 6, 8
	}
	// shards split the space by n
	shard, _ := strconv.Atoi(getenv("VERIF_SHARD", "0"))
	nshards := 1
	if v := getenv("VERIF_NSHARDS", ""); v != "" {
		nshards, _ = strconv.Atoi(v)
	}
	opt := func(lo, hi int64) []*int64 {
		out := []*int64{nil}
		for i := lo; i <= hi; i++ {
			out = append(out, ast.I64(i))
		}
		return out
	}
	count := 0
	for n := 0; n <= maxN; n++ {
		for kind := 0; kind < 2; kind++ {
			var subj jv.Val
			if kind == 0 {
				a := make([]jv.Val, n)
				for i := range a {
					a[i] = jv.VInt(int64(i))
				}
				subj = jv.VArr(a)
			} else {
				rs := make([]rune, n)
				for i := range rs {
					rs[i] = mixedRunes[(i*2)%6]
				}
				subj = jv.VStr(string(rs))
			}
			doc := jv.VObj([]jv.Member{{K: "a", V: subj}})
			node := run.FromVal(doc)
			for _, st := range opt(-lim, lim) {
				for _, sp := range opt(-lim, lim) {
					for _, sd := range opt(-4, 4) {
						count++
						if count%nshards != shard {
							continue
						}
						s := ast.Step{Kind: ast.SSlice, Start: st, Stop: sp, Stride: sd}
						e := ast.F("a").With(s)
						text := ast.Render(e)
						c.Case()
						res, _ := model.Eval(e, doc)
						run.Watch(c, "exhaustive", run.Call{API: "search", Expr: text, Doc: &node})
						out := run.Search(text, node.Build())
						if msg := run.CheckAgainst(res, out); msg != "" {
							exp := &run.Expect{}
							if res.Err != 0 {
								exp.Errors = res.Err.Names()
							} else {
								exp.Value = &run.EncVal{V: res.V}
							}
							c.Fail(t, run.Replay{Check: "exhaustive", Kind: "expect", Calls: []run.Call{{API: "search", Expr: text, Doc: &node}}, Expect: exp, Message: msg}, text)
							return
						}
						if sd == nil || *sd != 0 {
							if sliceNonTrivial(n, s, len(model.SliceIndices(n, st, sp, sd))) {
								c.NonTrivial(text+"\x00"+doc.JSON(), nil)
							}
						}
					}
				}
			}
		}
	}
	c.SetExtra("exhaustive_block_cases", count)
}
