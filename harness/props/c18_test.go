package props

import (
	"encoding/json"
	"fmt"
	"strconv"
	"strings"
	"testing"

	"pgregory.net/rapid"

	"verif/harness/ast"
	"verif/harness/gen"
	"verif/harness/jv"
	"verif/harness/model"
	"verif/harness/run"
)

// plainJSON checks that a raw result consists only of the kinds C18 allows and
// that encoding/json serialises it to the same value.
func plainJSON(o run.Outcome) string {
	if o.Info.Foreign != "" {
		return "result contains a value of foreign type " + o.Info.Foreign
	}
	if o.Info.BadNumber != "" {
		return "result contains a non-finite number " + o.Info.BadNumber
	}
	if o.Info.BadUTF8 {
		return "result contains a string that is not valid UTF-8"
	}
	b, err := json.Marshal(o.Raw)
	if err != nil {
		return "encoding/json cannot serialise the result: " + err.Error()
	}
	back, err := jv.ParseJSON(string(b))
	if err != nil {
		return "serialised result is not valid JSON: " + err.Error()
	}
	if !jv.Equal(back, o.Val) {
		return fmt.Sprintf("serialising changes the value: %s -> %s", o.Val.JSON(), string(b))
	}
	return ""
}

// C18: results are plain JSON values that can be queried and serialised again.
func TestC18_Compose(t *testing.T) {
	c := collector("C18", "compose")
	check(t, func(t *rapid.T) {
		doc := gen.Doc(t, docCfg())
		c.Case()
		cfg1 := gen.ExprCfg{MaxDepth: 2, MaxSteps: 4, Funcs: true, Arith: true, Compare: true, NoFreeVar: true, Let: true}
		g1 := &gen.G{T: t, Root: doc, Cfg: cfg1}
		e1 := g1.Expr(doc, 0)
		r1m := model.EvalAt(e1, doc, doc)
		mid := jv.VNull()
		if r1m.IsValue() {
			mid = r1m.V
		}
		cfg2 := cfg1
		cfg2.NoRoot = true
		g2 := &gen.G{T: t, Root: mid, Cfg: cfg2}
		e2 := g2.Expr(mid, 0)
		t1 := ast.RenderWith(e1, gen.Chooser{T: t})
		t2 := ast.RenderWith(e2, gen.Chooser{T: t})
		piped := ast.Bin("|", e1, e2)
		tp := ast.RenderWith(piped, gen.Chooser{T: t})
		node := run.FromVal(doc)
		calls := []run.Call{{API: "search", Expr: t1, Doc: &node}, {API: "search", Expr: t2}, {API: "search", Expr: tp, Doc: &node}}
		run.Watch(c, "compose", calls...)
		if model.Static(piped).RefAtValue && kfOpen("expref-at-value-position") {
			c.Exclude("expref-at-value-position")
			return
		}
		// order-sensitive uses of enumerated arrays vary legitimately
		pm, _ := model.Eval(piped, doc)
		if pm.Undet != "" && enumeratesMembers(piped) {
			c.Skip(pm.Undet)
			return
		}
		// several sub-expressions failing at once: which fault is reported may vary
		multi := pm.Err.Count() > 1 || pm.Undet != ""
		msg := c18Verdict(calls, enumeratesMembers(piped), multi)
		if msg != "" {
			c.Fail(t, run.Replay{Check: "compose", Kind: "custom:c18", Calls: calls, Loose: enumeratesMembers(piped), Message: msg, Extra: mustJSON(map[string]any{"multi_fault": multi})}, msg[:minInt(len(msg), 30)])
			return
		}
		c.Label("ok")
		if r1m.IsValue() && (r1m.V.K == jv.Arr || r1m.V.K == jv.Obj) {
			if ch, ok := e2.(*ast.Chain); !(ok && ch.Head.Kind == ast.HCurrent && len(ch.Steps) == 0) {
				c.NonTrivial(t1+"\x00"+t2+"\x00"+doc.JSON(), func() any {
					return map[string]any{"e1": t1, "e2": t2, "doc": doc.JSON(), "intermediate": truncate(r1m.V.JSON(), 200)}
				})
			}
		}
	})
}

// c18Verdict: calls[0] = e1 on d, calls[1] = e2 (applied to the raw result of
// e1), calls[2] = e1 | e2 on d.
func c18Verdict(calls []run.Call, loose bool, multiFault bool) string {
	data := calls[0].Doc.Build()
	o1 := run.Search(calls[0].Expr, data)
	op := run.Search(calls[2].Expr, calls[2].Doc.Build())
	if o1.Panic != "" {
		return "panic: " + o1.Panic
	}
	if op.Panic != "" {
		return "panic: " + op.Panic
	}
	if o1.Failed {
		// e1 fails: so must e1 | e2 (static faults of e2 may be reported instead)
		if !op.Failed {
			return fmt.Sprintf("e1 fails (%s) but e1 | e2 does not (%s)", o1, op)
		}
		return ""
	}
	if msg := plainJSON(o1); msg != "" {
		return "result of e1: " + msg
	}
	if o1.Info.NilSlice || o1.Info.NilMap {
		return "result of e1 contains a nil slice or map (serialises as null): " + o1.String()
	}
	// the result is acceptable as input again
	oid := run.Search("@", o1.Raw)
	if oid.Panic != "" || oid.Failed || !jv.StrictEqual(oid.Val, o1.Val) {
		return fmt.Sprintf("the result of e1 is not accepted unchanged as input: %s -> %s", o1, oid)
	}
	snap := run.SnapshotFull(o1.Raw)
	o2 := run.Search(calls[1].Expr, o1.Raw)
	if o2.Panic != "" {
		return "panic: " + o2.Panic
	}
	if after := run.SnapshotFull(o1.Raw); after != snap {
		return fmt.Sprintf("querying the result of e1 with e2 changed that result:\n before %s\n after  %s", snap, after)
	}
	// ... and querying it again gives the same answer
	if o2b := run.Search(calls[1].Expr, o1.Raw); run.SameOutcomeMF(o2, o2b, loose, multiFault) != "" {
		return fmt.Sprintf("querying the result of e1 twice with e2 gives different answers: %s then %s", o2, o2b)
	}
	if !o2.Failed {
		if msg := plainJSON(o2); msg != "" {
			return "result of e2: " + msg
		}
	}
	if multiFault && o2.Failed && op.Failed {
		return ""
	}
	if msg := run.SameOutcome(o2, op, loose); msg != "" {
		return "search(e2, search(e1, d)) differs from search(e1 | e2, d): " + msg
	}
	return ""
}

func init() {
	customReplays["custom:c18"] = func(r run.Replay) string {
		if len(r.Calls) != 3 || r.Calls[0].Doc == nil || r.Calls[2].Doc == nil {
			return "malformed replay"
		}
		var ex struct {
			Multi bool `json:"multi_fault"`
		}
		_ = jsonUnmarshal(r.Extra, &ex)
		return c18Verdict(r.Calls, r.Loose, ex.Multi)
	}
}

// c18Consumers: second queries that look at every part of an intermediate
// result (its container kinds, its elements' kinds, its numbers).
var c18Consumers = []string{"@", "to_string(@)", "type(@)", "[@, @]", "to_array(@)", "{a: @}.a", "@ == @", "length(@)", "[0]", "[-1]", "[1]", "[*]", "[]", "reverse(@)", "[::2]", "[::-1]", "[1:]", "[?@]",
	"join('', @)", "join(',', [*].to_string(@))", "sort(@)", "max(@)", "min(@)", "sum(@)", "avg(@)", "[*][0]", "[0][-1]", "[0][0]", "[*].k", "[*].id", "map(&@, @)", "map(&type(@), @)", "map(&length(@), @)", "[*][*]", "[][]",
	"keys(@)", "values(@)", "*", "items(@)", "merge(@, @)", "*.length(@)", "*[0]", "upper(@)", "abs(@)", "@ + `1`", "-@", "ceil(@)", "@ > `0`", "contains(@, `1`)", "contains(@, 'a')", "zip(@, @)", "from_items(items(@))",
	"sort_by(@, &to_string(@))", "group_by(@, &type(@))", "not_null(@[0], @)", "[0] == [1]", "length([0])", "[*].length(@)", "type([0])", "[*].type(@)", "to_number(@)", "@[0] + @[1]", "starts_with([0], 'a')", "split([0], '')"}

// C18 (functions): the result of every built-in, for every kind of argument,
// is plain JSON and can be queried again with the same answers as e1 | e2.
func TestC18_Funcs(t *testing.T) {
	c := collector("C18", "funcs")
	check(t, func(t *rapid.T) {
		e1, doc, name := genCall(t)
		if rapid.IntRange(0, 11).Draw(t, "extreme") == 0 {
			// arithmetic and numeric functions at the edges of the decimal
			// range: the result must be a JSON number or an error, never an
			// infinity or NaN value
			lim := func(label string) ast.Expr {
				return ast.Lit(jv.VNumText(gen.Pick(t, label, []string{"9e6144", "9.999999999999999999999999999999999e6144", "-9e6144", "1e6000", "1e-6000", "1e-6176", "1e-6143", "0.5", "2", "10", "-3", "1e-200", "1e200", "0", "1e6144"})))
			}
			switch rapid.IntRange(0, 2).Draw(t, "extremekind") {
			case 0:
				op := gen.Pick(t, "extremeop", []string{"+", "-", "*", "/", "//", "%"})
				e1, name = ast.Paren(ast.Bin(op, lim("l"), lim("r"))), "arith"+op
			case 1:
				fn := gen.Pick(t, "extremefn", []string{"sum", "avg", "max", "min"})
				e1, name = ast.Call(fn, ast.A(&ast.Chain{Head: ast.Head{Kind: ast.HMultiList, Items: []ast.Expr{lim("l"), lim("r"), lim("m")}}})), fn
			default:
				fn := gen.Pick(t, "extremefn1", []string{"abs", "ceil", "floor", "to_number"})
				var arg ast.Expr = ast.Paren(ast.Bin("*", lim("l"), lim("r")))
				if fn == "to_number" {
					arg = ast.RawS(gen.Pick(t, "tonum", []string{"1e6145", "-1e6145", "1e99999", "9.99e6144", "1e-6177", "1e-99999", "Infinity", "-Infinity", "NaN", "inf", "+Inf", "nan", "sNaN", "1e+6144"}))
				}
				e1, name = ast.Call(fn, ast.A(arg)), fn
			}
			doc = jv.VObj(nil)
		}
		t2 := gen.Pick(t, "consumer", c18Consumers)
		pr := ast.Parse(t2)
		if pr.Verdict != ast.In {
			t.Fatalf("HARNESS-BUG: consumer %q does not parse: %s", t2, pr.Reason)
		}
		c.Case()
		piped := ast.Bin("|", e1, pr.Expr)
		if model.Static(piped).RefAtValue && kfOpen("expref-at-value-position") {
			c.Exclude("expref-at-value-position")
			return
		}
		r1, _ := model.Eval(e1, doc)
		if r1.Undet != "" && containsPad(e1) {
			c.Skip("pad-of-undetermined-size")
			return
		}
		pm, _ := model.Eval(piped, doc)
		loose := enumeratesMembers(piped)
		if pm.Undet != "" && loose {
			c.Skip(pm.Undet)
			return
		}
		multi := pm.Err.Count() > 1 || pm.Undet != ""
		t1 := ast.RenderWith(e1, gen.Chooser{T: t})
		tp := ast.RenderWith(piped, gen.Chooser{T: t})
		node := run.FromVal(doc)
		calls := []run.Call{{API: "search", Expr: t1, Doc: &node}, {API: "search", Expr: t2}, {API: "search", Expr: tp, Doc: &node}}
		run.Watch(c, "funcs", calls...)
		if msg := c18Verdict(calls, loose, multi); msg != "" {
			c.Fail(t, run.Replay{Check: "funcs", Kind: "custom:c18", Calls: calls, Loose: loose, Message: msg, Extra: mustJSON(map[string]any{"multi_fault": multi})}, name+":"+msg[:minInt(len(msg), 30)])
			return
		}
		c.Label(name)
		if r1.IsValue() && r1.V.K != jv.Null && t2 != "@" {
			c.NonTrivial(t1+"\x00"+t2+"\x00"+doc.JSON(), func() any {
				return map[string]any{"e1": t1, "e2": t2, "doc": doc.JSON(), "intermediate": truncate(r1.V.JSON(), 200)}
			})
		}
	})
}

// C18 (deep results): an expression can build a value nested deeper than its
// input (every nested multi-select adds a level). Such a result must still be
// accepted as input: Search(e2, Search(e1, d)) equals Search(e1 | e2, d) for
// results nested 100 ... 15,000 levels deep. (Serialisation is not judged at
// these depths: encoding/json itself refuses to read back more than 10,000
// levels.)
func TestC18_Deep(t *testing.T) {
	c := collector("C18", "deep")
	shard, _ := strconv.Atoi(getenv("VERIF_SHARD", "0"))
	nshards, _ := strconv.Atoi(getenv("VERIF_NSHARDS", "1"))
	i := 0
	for _, kind := range []string{"list", "hash", "mixed", "to_array"} {
		for _, n := range []int{100, 9999, 10000, 10001, 15000} {
			for _, e2 := range []string{"@", "length(@)", "type(@)", "[0] == [0]"} {
				i++
				if i%nshards != shard {
					continue
				}
				c.Case()
				call := run.Call{API: "search", Expr: "deepresult:" + kind + ":" + strconv.Itoa(n) + ":" + e2}
				run.WatchAs(c, "deep", "custom:c18-deep", nil, call)
				if msg := c18DeepVerdict(kind, n, e2); msg != "" {
					c.Fail(t, run.Replay{Check: "deep", Kind: "custom:c18-deep", Calls: []run.Call{call}, Message: fmt.Sprintf("%s nested %d deep, then %s: %s", kind, n, e2, truncate(msg, 400))}, kind)
					return
				}
				c.NonTrivial(kind+strconv.Itoa(n)+e2, func() any { return map[string]any{"construct": kind, "depth": n, "e2": e2} })
			}
		}
	}
}

func c18DeepVerdict(kind string, n int, e2 string) string {
	var e1 string
	switch kind {
	case "list":
		e1 = strings.Repeat("[", n) + "a" + strings.Repeat("]", n)
	case "hash":
		e1 = strings.Repeat("{k: ", n) + "a" + strings.Repeat("}", n)
	case "mixed":
		e1 = strings.Repeat("[{k: ", n/2) + "a" + strings.Repeat("}]", n/2)
	default:
		e1 = strings.Repeat("to_array(", n) + "[a]" + strings.Repeat(")", n) // to_array of an array is the array: depth 1
	}
	doc := func() any { return map[string]any{"a": []any{json.Number("1")}} }
	o1 := run.Search(e1, doc())
	if o1.Panic != "" {
		return "panic: " + truncate(o1.Panic, 200)
	}
	if o1.Failed {
		return "e1 fails: " + truncate(o1.String(), 200)
	}
	o2 := run.Search(e2, o1.Raw)
	op := run.Search("("+e1+") | "+e2, doc())
	if o2.Panic != "" || op.Panic != "" {
		return "panic: " + truncate(o2.Panic+op.Panic, 200)
	}
	if o2.Failed && !op.Failed {
		return "the result of e1 is not accepted as input of e2: " + truncate(o2.String(), 200)
	}
	if msg := run.SameOutcome(o2, op, false); msg != "" {
		return "search(e2, search(e1, d)) differs from search(e1 | e2, d): " + truncate(msg, 300)
	}
	return ""
}

func init() {
	customReplays["custom:c18-deep"] = func(r run.Replay) string {
		if len(r.Calls) == 0 {
			return "malformed replay"
		}
		parts := strings.SplitN(r.Calls[0].Expr, ":", 4)
		if len(parts) != 4 {
			return "malformed replay"
		}
		n, _ := strconv.Atoi(parts[2])
		return c18DeepVerdict(parts[1], n, parts[3])
	}
}
