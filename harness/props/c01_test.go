package props

import (
	"testing"

	"pgregory.net/rapid"

	"verif/harness/ast"
	"verif/harness/gen"
	"verif/harness/jv"
	"verif/harness/model"
	"verif/harness/run"
)

// modelDiff runs text on doc through Search and through Compile+Search and
// compares both with the model's outcome. Returns true if a failure was
// recorded.
func modelDiff(t *rapid.T, c *run.Collector, check string, e ast.Expr, text string, doc jv.Val, res model.Res) bool {
	node := run.FromVal(doc)
	run.Watch(c, check, run.Call{API: "search", Expr: text, Doc: &node})
	out := run.Search(text, node.Build())
	msg := run.CheckAgainst(res, out)
	api := "search"
	if msg == "" {
		ce, co := run.Compile(text)
		if co.Panic != "" || co.Failed {
			if !(res.Err != 0 && co.Failed && co.Cats&res.Err != 0) {
				msg = "Search and Compile disagree: Compile -> " + co.String() + ", Search -> " + out.String()
				api = "compile"
			}
		} else {
			out2 := run.ExprSearch(ce, node.Build())
			msg = run.CheckAgainst(res, out2)
			api = "expr-search"
		}
	}
	if msg == "" {
		return false
	}
	exp := &run.Expect{}
	if res.Err != 0 {
		exp.Errors = res.Err.Names()
	} else {
		exp.Value = &run.EncVal{V: res.V}
	}
	c.Fail(t, run.Replay{Check: check, Kind: "expect", Calls: []run.Call{{API: api, Expr: text, Doc: &node}}, Expect: exp, Message: msg}, check+":"+ast.Shape(e))
	return true
}

func coreCfg() gen.ExprCfg {
	cfg := gen.CoreCfg
	if thorough() {
		cfg.MaxDepth = 4
		cfg.MaxSteps = 7
	}
	return cfg
}

// C01: core-language queries return the value the model (= the
// specification) assigns.
func TestC01_Model(t *testing.T) {
	c := collector("C01", "model")
	check(t, func(t *rapid.T) {
		doc := gen.Doc(t, docCfg())
		g := &gen.G{T: t, Root: doc, Cfg: coreCfg()}
		e := g.Expr(doc, 0)
		text := ast.RenderWith(e, gen.Chooser{T: t})
		c.Case()
		res, ev := model.Eval(e, doc)
		if res.Undet != "" {
			c.Skip(res.Undet)
			return
		}
		if modelDiff(t, c, "model", e, text, doc, res) {
			return
		}
		if ev.Projections > 0 {
			c.Label("projection")
		}
		if ev.MaxProjDepth > 1 {
			c.Label("nested-projection")
		}
		if res.Err != 0 {
			c.Label("error")
			return
		}
		if res.V.K == jv.Null {
			c.Label("null-result")
			return
		}
		chainy := false
		ast.Walk(e, func(x ast.Expr) {
			if ch, ok := x.(*ast.Chain); ok && len(ch.Steps) >= 2 {
				chainy = true
			}
		})
		if (chainy || ev.Projections > 0) && (ev.NullDropped > 0 || ev.TypeNull > 0) {
			c.NonTrivial(text+"\x00"+doc.JSON(), func() any {
				return map[string]any{"expr": text, "doc": doc.JSON(), "result": res.V.JSON()}
			})
		}
	})
}
