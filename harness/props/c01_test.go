package props

import (
	"strings"
	"testing"

	"pgregory.net/rapid"

	"verif/harness/ast"
	"verif/harness/gen"
	"verif/harness/jv"
	"verif/harness/model"
	"verif/harness/run"
)

// modelDiff runs text on doc through Search and through Compile+Search and
// compares both with the model's outcome. Returns true if a failure was
// recorded.
func modelDiff(t *rapid.T, c *run.Collector, check string, e ast.Expr, text string, doc jv.Val, res model.Res) bool {
	node := run.FromVal(doc)
	run.Watch(c, check, run.Call{API: "search", Expr: text, Doc: &node})
	out := run.Search(text, node.Build())
	msg := run.CheckAgainst(res, out)
	api := "search"
	if msg == "" {
		ce, co := run.Compile(text)
		if co.Panic != "" || co.Failed {
			if !(res.Err != 0 && co.Failed && co.Cats&res.Err != 0) {
				msg = "Search and Compile disagree: Compile -> " + co.String() + ", Search -> " + out.String()
				api = "compile"
			}
		} else {
			out2 := run.ExprSearch(ce, node.Build())
			msg = run.CheckAgainst(res, out2)
			api = "expr-search"
		}
	}
	if msg == "" {
		return false
	}
	exp := &run.Expect{}
	if res.Err != 0 {
		exp.Errors = res.Err.Names()
	} else {
		exp.Value = &run.EncVal{V: res.V}
	}
	c.Fail(t, run.Replay{Check: check, Kind: "expect", Calls: []run.Call{{API: api, Expr: text, Doc: &node}}, Expect: exp, Message: msg}, check+":"+ast.Shape(e))
	return true
}

func coreCfg() gen.ExprCfg {
	cfg := gen.CoreCfg
	if thorough() {
		cfg.MaxDepth = 4
		cfg.MaxSteps = 7
	}
	return cfg
}

// C01: core-language queries return the value the model (= the
// specification) assigns.
func TestC01_Model(t *testing.T) {
	c := collector("C01", "model")
	check(t, func(t *rapid.T) {
		doc := gen.Doc(t, docCfg())
		g := &gen.G{T: t, Root: doc, Cfg: coreCfg()}
		e := g.Expr(doc, 0)
		text := ast.RenderWith(e, gen.Chooser{T: t})
		c.Case()
		res, ev := model.Eval(e, doc)
		if res.Undet != "" {
			c.Skip(res.Undet)
			return
		}
		if modelDiff(t, c, "model", e, text, doc, res) {
			return
		}
		if ev.Projections > 0 {
			c.Label("projection")
		}
		if ev.MaxProjDepth > 1 {
			c.Label("nested-projection")
		}
		if res.Err != 0 {
			c.Label("error")
			return
		}
		if res.V.K == jv.Null {
			c.Label("null-result")
			return
		}
		chainy := false
		ast.Walk(e, func(x ast.Expr) {
			if ch, ok := x.(*ast.Chain); ok && len(ch.Steps) >= 2 {
				chainy = true
			}
		})
		if (chainy || ev.Projections > 0) && (ev.NullDropped > 0 || ev.TypeNull > 0) {
			c.NonTrivial(text+"\x00"+doc.JSON(), func() any {
				return map[string]any{"expr": text, "doc": doc.JSON(), "result": res.V.JSON()}
			})
		}
	})
}

// C01 (idioms): the first / last / rest / count / flatten of a filtered,
// projected, sliced or sorted array, written with a pipe or with parentheses.
// These are the shapes an implementation is tempted to evaluate in one fused
// pass; every one of them must still drop nulls, keep order and stop the
// projection where the grammar says. Small arrays over a palette of elements
// that conditions treat differently (null, false-like and true-like values,
// records with and without the tested member).
func TestC01_Idioms(t *testing.T) {
	c := collector("C01", "idioms")
	elems := []string{`null`, `{"ok":true,"n":1}`, `{"n":2}`, `{"ok":false,"n":0}`, `{"ok":null,"n":3,"t":[1,null]}`, `1`, `0`, `"s"`, `""`, `[]`, `[null]`, `{}`, `false`, `true`, `[1,2]`}
	lefts := []string{"x[?!ok]", "x[?ok]", "x[?n]", "x[?!n]", "x[?@]", "x[?!@]", "x[?ok == `null`]", "x[?ok != `true`]", "x[?n > `0`]", "x[?n == `null` || n < `3`]", "x[*]", "x[*].n", "x[*].ok", "x[]", "x[][]", "x[1:]", "x[:2]", "x[::-1]", "x[::2]",
		"x[*].t", "x[?t].t[]", "sort_by(x[?n], &n)", "x[?n] | sort_by(@, &n)", "map(&n, x)", "x[?type(@) == 'object']", "x[?type(@) != 'object']", "[x[0], x[1]]", "x[*].[n, ok]", "x[?n].{n: n}", "reverse(x)", "to_array(x)", "x"}
	rights := []string{"[0]", "[-1]", "[1]", "[0:1]", "[1:]", "[:-1]", "[]", "[*]", "[::-1]", "length(@)", "[0].n", "[-1].ok", "reverse(@)", "[0][0]", "[?@]", "[?!@]", "[*].n", "type(@)", "[0] == `null`", "not_null(@[0], @[1])", "@"}
	check(t, func(t *rapid.T) {
		n := rapid.IntRange(0, 5).Draw(t, "len")
		arr := make([]jv.Val, n)
		for i := range arr {
			arr[i] = jv.MustParseJSON(gen.Pick(t, "elem", elems))
		}
		doc := jv.VObj([]jv.Member{{K: "x", V: jv.VArr(arr)}})
		l, r := gen.Pick(t, "left", lefts), gen.Pick(t, "right", rights)
		var text string
		switch rapid.IntRange(0, 3).Draw(t, "join") {
		case 0:
			text = l + " | " + r
		case 1:
			text = l + "|" + r
		case 2:
			if strings.HasPrefix(r, "[") || r == "@" {
				text = "(" + l + ")" + strings.TrimPrefix(r, "@")
			} else {
				text = "(" + l + ") | " + r
			}
		default:
			text = "[" + l + " | " + r + ", " + l + "]"
		}
		pr := ast.Parse(text)
		c.Case()
		if pr.Verdict != ast.In {
			if pr.Verdict == ast.Out {
				t.Fatalf("HARNESS-BUG: idiom %q does not parse: %s", text, pr.Reason)
			}
			c.Skip("reference-parser-undetermined")
			return
		}
		res, _ := model.Eval(pr.Expr, doc)
		if res.Undet != "" {
			c.Skip(res.Undet)
			return
		}
		if modelDiff(t, c, "idioms", pr.Expr, text, doc, res) {
			return
		}
		c.Label(r)
		nulls := 0
		for _, e := range arr {
			if e.K == jv.Null {
				nulls++
			}
		}
		if nulls > 0 && n >= 2 {
			c.NonTrivial(text+"\x00"+doc.JSON(), func() any { return map[string]any{"expr": text, "doc": doc.JSON(), "outcome": describe(res)} })
		}
	})
}
