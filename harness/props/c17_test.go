package props

import (
	"testing"

	"pgregory.net/rapid"

	"verif/harness/ast"
	"verif/harness/gen"
	"verif/harness/jv"
	"verif/harness/model"
	"verif/harness/run"
)

// enumeratesMembers: the expression enumerates object members somewhere, so
// arrays in the result may come out in any order.
func enumeratesMembers(es ...ast.Expr) bool {
	found := false
	for _, e := range es {
		ast.Walk(e, func(x ast.Expr) {
			c, ok := x.(*ast.Chain)
			if !ok {
				return
			}
			if c.Head.Kind == ast.HCall && (c.Head.Name == "keys" || c.Head.Name == "values" || c.Head.Name == "items" || c.Head.Name == "group_by") {
				found = true
			}
			for _, s := range c.Steps {
				if s.Kind == ast.SStar || (s.Kind == ast.SCall && (s.Name == "keys" || s.Name == "values" || s.Name == "items")) {
					found = true
				}
			}
		})
	}
	return found
}

func selectorSteps(g *gen.G, v jv.Val, n int) []ast.Step {
	// steps drawn by the directed generator, restricted to plain selectors
	c := g.Chain(v, g.Cfg.MaxDepth).(*ast.Chain) // depth at max: no nested sub-expressions in heads
	var out []ast.Step
	for _, s := range c.Steps {
		switch s.Kind {
		case ast.SField, ast.SIndex, ast.SMultiList, ast.SMultiHash:
			out = append(out, s)
		}
	}
	if len(out) > n {
		out = out[:n]
	}
	return out
}

// C17: equivalent ways of writing a query give the same answer.
func TestC17_Identities(t *testing.T) {
	c := collector("C17", "identities")
	check(t, func(t *rapid.T) {
		doc := gen.Doc(t, docCfg())
		c.Case()
		cfg := gen.CoreCfg
		cfg.MaxDepth = 2
		cfg.MaxSteps = 3
		cfg.Let = false
		cfg.NoFreeVar = true
		g := &gen.G{T: t, Root: doc, Cfg: cfg}
		X := g.Chain(doc, 1).(*ast.Chain)
		if rapid.IntRange(0, 3).Draw(t, "arrayX") > 0 {
			if ac := arrayChain(t, doc); ac != nil {
				X = ac
			}
		}
		// X must be a closed sub-expression: steps appended to an open
		// projection would become part of its right-hand side
		for _, st := range X.Steps {
			if st.IsProjection() {
				X = ast.Paren(X)
				break
			}
		}
		xv := model.EvalAt(X, doc, doc)
		var rep jv.Val
		if xv.IsValue() && xv.V.K == jv.Arr {
			for _, e := range xv.V.A {
				if e.K != jv.Null {
					rep = e
					break
				}
			}
		}
		eExpr := g.Expr(rep, 1)
		var lhs, rhs ast.Expr
		schema := rapid.IntRange(0, 9).Draw(t, "schema")
		name := ""
		pipeStar := func(left ast.Expr, steps ...ast.Step) ast.Expr {
			return ast.Bin("|", left, &ast.Chain{Head: ast.Head{Kind: ast.HImplicit}, Steps: append([]ast.Step{{Kind: ast.SListStar}}, steps...)})
		}
		asSteps := func(e ast.Expr) ([]ast.Step, bool) {
			// an expression usable as ".e" after a projection: a chain whose head is a field / call / multi-select
			ch, ok := e.(*ast.Chain)
			if !ok {
				return nil, false
			}
			var first ast.Step
			switch ch.Head.Kind {
			case ast.HField:
				first = ast.Step{Kind: ast.SField, Name: ch.Head.Name}
			case ast.HMultiList:
				first = ast.Step{Kind: ast.SMultiList, Items: ch.Head.Items}
			case ast.HMultiHash:
				first = ast.Step{Kind: ast.SMultiHash, Keys: ch.Head.Keys, Items: ch.Head.Items}
			default:
				return nil, false
			}
			for _, st := range ch.Steps {
				if st.Kind == ast.SFlatten {
					// a flatten ends every enclosing projection: e would not
					// stay inside the right-hand side
					return nil, false
				}
			}
			return append([]ast.Step{first}, ch.Steps...), true
		}
		projKinds := []ast.Step{{Kind: ast.SListStar}, {Kind: ast.SFlatten}, {Kind: ast.SFilter, Cond: g.Expr(rep, 2)}, {Kind: ast.SSlice, Start: nil, Stop: nil, Stride: ast.I64(int64(rapid.IntRange(1, 2).Draw(t, "stride")))}, {Kind: ast.SSlice, Start: ast.I64(1)}}
		switch schema {
		case 0, 1: // X<proj>.s1.s2 == X<proj>.s1 | [*].s2
			p := gen.Pick(t, "proj", append(projKinds, ast.Step{Kind: ast.SStar}))
			steps := selectorSteps(g, rep, 3)
			if rapid.IntRange(0, 2).Draw(t, "totalsel") == 0 {
				// a selector that yields something for every operand, scalars
				// included: a function of @ or a multi-select
				cur := ast.A(ast.Cur())
				steps = append([]ast.Step{gen.Pick(t, "total", []ast.Step{
					{Kind: ast.SCall, Name: "to_string", Args: []ast.Arg{cur}}, {Kind: ast.SCall, Name: "type", Args: []ast.Arg{cur}},
					{Kind: ast.SCall, Name: "not_null", Args: []ast.Arg{cur}}, {Kind: ast.SCall, Name: "to_array", Args: []ast.Arg{cur}},
					{Kind: ast.SCall, Name: "length", Args: []ast.Arg{cur}}, {Kind: ast.SCall, Name: "abs", Args: []ast.Arg{cur}},
					{Kind: ast.SMultiList, Items: []ast.Expr{ast.Cur()}}, {Kind: ast.SMultiHash, Keys: []string{"k"}, Items: []ast.Expr{ast.Cur()}},
				})}, steps...)
			}
			if len(steps) < 1 {
				steps = []ast.Step{{Kind: ast.SField, Name: gen.Key(t)}, {Kind: ast.SField, Name: gen.Key(t)}}
			}
			// (split 0: every selector moves behind the pipe)
			k := rapid.IntRange(0, len(steps)-1).Draw(t, "split")
			lhs = X.With(append([]ast.Step{p}, steps...)...)
			rhs = pipeStar(X.With(append([]ast.Step{p}, steps[:k]...)...), steps[k:]...)
			if p.Kind == ast.SSlice && xv.IsValue() && xv.V.K == jv.Str {
				c.Skip("slice-of-string-is-not-a-projection")
				return
			}
			if k == 0 && steps[0].Kind == ast.SCall {
				// X<proj>.f(@) applies f to null elements too, X<proj> | [*].f(@)
				// only to those the first projection kept: the two spellings
				// are the same only when no element is null (the reference
				// interpreter decides)
				ml, _ := model.Eval(lhs, doc)
				mr, _ := model.Eval(rhs, doc)
				same := ml.Undet == "" && mr.Undet == "" && ml.IsValue() == mr.IsValue() && (!ml.IsValue() || jv.Equal(ml.V, mr.V))
				if !same {
					c.Skip("function-selector-over-null-elements")
					return
				}
			}
			name = "proj-selectors-vs-pipe"
		case 2: // X[*].e == map(&e, X) with nulls removed, for an array X
			if !(xv.IsValue() && xv.V.K == jv.Arr) {
				c.Skip("x-not-array")
				return
			}
			st, ok := asSteps(eExpr)
			if !ok {
				c.Skip("e-not-a-subexpression")
				return
			}
			if st[0].Kind != ast.SField {
				// a multi-select as a sub-expression short-circuits on null
				// elements, a free-standing one (inside &e) does not
				c.Skip("multiselect-head-differs-on-null-elements")
				return
			}
			lhs = X.With(append([]ast.Step{{Kind: ast.SListStar}}, st...)...)
			rhs = pipeStar(ast.Call("map", ast.Ref(eExpr), ast.A(X)))
			name = "liststar-vs-map"
		case 3, 4: // X[?c].e == X[?c] | [*].e ; X[].e ; X[s:t:u].e
			p := gen.Pick(t, "proj", projKinds[1:])
			if rapid.IntRange(0, 3).Draw(t, "faultycond") == 0 {
				// a homogeneous array with nulls sprinkled in, and a condition
				// (or selector) that fails on null but on no other element: the
				// fused and the unfused spelling must then fail alike
				kind := rapid.IntRange(0, 3).Draw(t, "elemkind")
				n := rapid.IntRange(1, 5).Draw(t, "nelem")
				arr := make([]jv.Val, n)
				for i := range arr {
					switch {
					case rapid.IntRange(0, 3).Draw(t, "isnull") == 0:
						arr[i] = jv.VNull()
					case kind == 0:
						arr[i] = jv.VStr(gen.Str(t))
					case kind == 1:
						arr[i] = jv.VInt(int64(rapid.IntRange(-3, 9).Draw(t, "num")))
					case kind == 2:
						arr[i] = jv.VObj([]jv.Member{{K: "name", V: jv.VStr(gen.Str(t))}, {K: "tags", V: jv.VArr([]jv.Val{jv.VStr("p"), jv.VInt(int64(i))})}})
					default:
						arr[i] = jv.VArr([]jv.Val{jv.VInt(int64(i)), jv.VStr("q")})
					}
				}
				conds := [][]string{
					{"length(@) > `1`", "starts_with(@, 'a')", "contains(@, 'a')", "upper(@) == @", "@ < 'b'"},
					{"abs(@) > `1`", "@ + `1` > `2`", "ceil(@) == @", "-@ < `0`", "@ > `2`"},
					{"length(name) > `2`", "starts_with(name, 'a')", "length(@) == `2`", "keys(@)[0] == 'name'", "tags[1] > `0`"},
					{"length(@) > `1`", "[0] > `0`", "contains(@, 'q')", "reverse(@)[0] == 'q'", "sum([@[0]]) > `1`"},
				}[kind]
				sels := [][]string{{"[@]", "{k: @}", "[length(@)]"}, {"[@]", "[abs(@)]", "{k: @}"}, {"tags[0]", "name", "[length(name)]", "tags"}, {"[0]", "[@]", "[length(@)]"}}[kind]
				cp := ast.Parse(gen.Pick(t, "faulty", conds))
				selText := gen.Pick(t, "faultysel", sels)
				if selText == "[0]" {
					selText = "@" + selText // an index, not a multi-select
				} else {
					selText = "@." + selText
				}
				sp := ast.Parse(selText)
				if cp.Verdict != ast.In || sp.Verdict != ast.In {
					t.Fatalf("HARNESS-BUG: palette expression does not parse: %s %s", cp.Reason, sp.Reason)
				}
				doc = jv.VObj([]jv.Member{{K: "x", V: jv.VArr(arr)}})
				X = ast.F("x")
				xv = model.EvalAt(X, doc, doc)
				sel := sp.Expr.(*ast.Chain).Steps
				var proj ast.Step
				switch rapid.IntRange(0, 2).Draw(t, "faultyproj") {
				case 0:
					proj = ast.Step{Kind: ast.SFilter, Cond: cp.Expr}
				case 1:
					proj = ast.Step{Kind: ast.SFilter, Cond: ast.Bin("||", cp.Expr, ast.Lit(jv.VBool(true)))}
				default:
					proj = gen.Pick(t, "plainproj", []ast.Step{{Kind: ast.SListStar}, {Kind: ast.SFlatten}, {Kind: ast.SSlice, Start: ast.I64(0)}})
				}
				lhs = X.With(append([]ast.Step{proj}, sel...)...)
				rhs = pipeStar(X.With(proj), sel...)
				if rapid.Bool().Draw(t, "parenform") {
					rhs = ast.Paren(X.With(proj)).With(append([]ast.Step{{Kind: ast.SListStar}}, sel...)...)
				}
				name = "projection-vs-unprojected-pipe"
				break
			}
			st, ok := asSteps(eExpr)
			if !ok {
				c.Skip("e-not-a-subexpression")
				return
			}
			if p.Kind == ast.SSlice && !(xv.IsValue() && (xv.V.K == jv.Arr || xv.V.K == jv.Null)) {
				c.Skip("slice-of-non-array")
				return
			}
			lhs = X.With(append([]ast.Step{p}, st...)...)
			rhs = pipeStar(X.With(p), st...)
			name = "projection-vs-unprojected-pipe"
		case 5: // a.b == a | b when a is not a projection
			a := &ast.Chain{Head: X.Head}
			for _, s := range X.Steps {
				if s.IsProjection() {
					break
				}
				a.Steps = append(a.Steps, s)
			}
			if a.Head.Kind == ast.HImplicit && len(a.Steps) == 0 {
				a = ast.Cur()
			}
			st, ok := asSteps(eExpr)
			if !ok {
				c.Skip("e-not-a-subexpression")
				return
			}
			lhs = a.With(st...)
			rhs = ast.Bin("|", a, eExpr)
			// a.f(..) with a null a: whether the sub-expression short-circuits is not pinned
			av := model.EvalAt(a, doc, doc)
			if !av.IsValue() || av.V.K == jv.Null {
				c.Skip("left-side-null")
				return
			}
			name = "subexpression-vs-pipe"
		case 6: // (P).s == P | s : parentheses end a projection like a pipe
			p := gen.Pick(t, "proj", append(projKinds[:len(projKinds):len(projKinds)],
				ast.Step{Kind: ast.SSlice, Stride: ast.I64(-1)}, ast.Step{Kind: ast.SSlice, Start: ast.I64(1), Stride: ast.I64(3)}, ast.Step{Kind: ast.SSlice, Stop: ast.I64(4)}))
			var P *ast.Chain
			switch rapid.IntRange(0, 3).Draw(t, "pshape") {
			case 0:
				P = X.With(p, ast.Step{Kind: ast.SField, Name: gen.Key(t)})
			case 1:
				P = X.With(p)
			default:
				// the projection applied to the current node itself, which is
				// the value of X (an array, a string, anything)
				switch {
				case rapid.IntRange(0, 2).Draw(t, "curkind") == 0:
					doc = jv.VStr(gen.Str(t))
				case !xv.IsValue() || jv.HasLoose(xv.V):
					doc = gen.Value(t, docCfg(), 0)
				default:
					doc = xv.V
				}
				P = &ast.Chain{Head: ast.Head{Kind: ast.HImplicit}, Steps: []ast.Step{p}}
				if rapid.Bool().Draw(t, "ptrail") {
					P = P.With(ast.Step{Kind: ast.SField, Name: gen.Key(t)})
				}
			}
			after := func() ast.Step {
				return gen.Pick(t, "after", []ast.Step{{Kind: ast.SField, Name: gen.Key(t)}, {Kind: ast.SIndex, Index: 0}, {Kind: ast.SIndex, Index: -1}, {Kind: ast.SListStar}, {Kind: ast.SFlatten},
					{Kind: ast.SSlice, Start: ast.I64(0), Stop: ast.I64(1)}, {Kind: ast.SMultiList, Items: []ast.Expr{ast.Cur()}}, {Kind: ast.SMultiList, Items: []ast.Expr{ast.F(gen.Key(t))}},
					{Kind: ast.SMultiHash, Keys: []string{"k"}, Items: []ast.Expr{ast.Cur()}}, {Kind: ast.SFilter, Cond: ast.Cur()}})
			}
			s := after()
			for s.Kind == ast.SMultiList || s.Kind == ast.SMultiHash {
				s = after() // a free-standing multi-select is not the same construct as a .[..] step
			}
			more := []ast.Step{}
			for i := rapid.IntRange(0, 2).Draw(t, "nmore"); i > 0; i-- {
				more = append(more, after())
			}
			lhs = ast.Paren(P).With(append([]ast.Step{s}, more...)...)
			var right *ast.Chain
			if s.Kind == ast.SField {
				right = ast.F(s.Name)
			} else {
				right = &ast.Chain{Head: ast.Head{Kind: ast.HImplicit}, Steps: []ast.Step{s}}
			}
			rhs = ast.Bin("|", P, right.With(more...))
			name = "paren-vs-pipe"
		case 7: // {k: e}.k == e
			k := gen.Key(t)
			lhs = (&ast.Chain{Head: ast.Head{Kind: ast.HMultiHash, Keys: []string{k}, Items: []ast.Expr{eExpr}}}).With(ast.Step{Kind: ast.SField, Name: k})
			rhs = eExpr
			name = "hash-select"
			if rep.K != jv.Null && rapid.Bool().Draw(t, "onrep") {
				doc = rep
			} else {
				eExpr = g.Expr(doc, 1)
				lhs = (&ast.Chain{Head: ast.Head{Kind: ast.HMultiHash, Keys: []string{k}, Items: []ast.Expr{eExpr}}}).With(ast.Step{Kind: ast.SField, Name: k})
				rhs = eExpr
			}
			if doc.K == jv.Null {
				c.Skip("null-current-node")
				return
			}
		default: // [e1, e2] == [e1] ++ [e2]
			e2 := g.Expr(rep, 1)
			if rep.K != jv.Null && rapid.Bool().Draw(t, "onrep") {
				doc = rep
			} else {
				eExpr = g.Expr(doc, 1)
				e2 = g.Expr(doc, 1)
			}
			if isBareStarExpr(eExpr) || isBareStarExpr(e2) {
				c.Skip("[*]-is-not-a-multiselect")
				return
			}
			if doc.K == jv.Null {
				c.Skip("null-current-node")
				return
			}
			ml := func(es ...ast.Expr) ast.Expr { return &ast.Chain{Head: ast.Head{Kind: ast.HMultiList, Items: es}} }
			if enumeratesMembers(eExpr, e2) {
				// an order-sensitive use of an enumerated array legitimately
				// varies from call to call
				if r, _ := model.Eval(ml(eExpr, e2), doc); r.Undet != "" {
					c.Skip(r.Undet)
					return
				}
			}
			node := run.FromVal(doc)
			texts := []string{ast.Render(ml(eExpr, e2)), ast.Render(ml(eExpr)), ast.Render(ml(e2))}
			calls := []run.Call{{API: "search", Expr: texts[0], Doc: &node}, {API: "search", Expr: texts[1], Doc: &node}, {API: "search", Expr: texts[2], Doc: &node}}
			run.Watch(c, "identities", calls...)
			msg := c17Concat(calls, enumeratesMembers(eExpr, e2))
			if msg != "" {
				c.Fail(t, run.Replay{Check: "identities", Kind: "custom:c17-concat", Calls: calls, Loose: enumeratesMembers(eExpr, e2), Message: msg}, "concat")
				return
			}
			c.Label("multiselect-concat")
			c.NonTrivial(texts[0]+"\x00"+doc.JSON(), func() any { return map[string]any{"identity": "multiselect-concat", "exprs": texts, "doc": doc.JSON()} })
			return
		}
		lt := ast.RenderWith(lhs, gen.Chooser{T: t})
		rt := ast.RenderWith(rhs, gen.Chooser{T: t})
		node := run.FromVal(doc)
		calls := []run.Call{{API: "search", Expr: lt, Doc: &node}, {API: "search", Expr: rt, Doc: &node}}
		run.Watch(c, "identities", calls...)
		ol := run.Search(lt, node.Build())
		or := run.Search(rt, node.Build())
		loose := enumeratesMembers(lhs, rhs)
		// an order-sensitive use of an enumerated array makes both sides legitimately vary
		if loose {
			if r, _ := model.Eval(lhs, doc); r.Undet != "" {
				c.Skip(r.Undet)
				return
			}
		}
		if msg := run.SameOutcome(ol, or, loose); msg != "" {
			c.Fail(t, run.Replay{Check: "identities", Kind: "same", Calls: calls, Loose: loose, Message: name + ": " + msg}, name)
			return
		}
		c.Label(name)
		if ol.IsValue() && ol.Val.K != jv.Null && xv.IsValue() && xv.V.K == jv.Arr {
			odd := false
			for _, e := range xv.V.A {
				if e.K != jv.Obj {
					odd = true
				}
			}
			if odd || name == "hash-select" || name == "subexpression-vs-pipe" {
				c.NonTrivial(lt+"\x00"+rt+"\x00"+doc.JSON(), func() any {
					return map[string]any{"identity": name, "left": lt, "right": rt, "doc": doc.JSON(), "outcome": truncate(ol.String(), 200)}
				})
			}
		}
	})
}

// c17Concat: calls[0] = [e1, e2], calls[1] = [e1], calls[2] = [e2].
func c17Concat(calls []run.Call, loose bool) string {
	both, a, b := doCall(calls[0]), doCall(calls[1]), doCall(calls[2])
	if both.Panic != "" || a.Panic != "" || b.Panic != "" {
		return "panic"
	}
	if a.Failed || b.Failed {
		if !both.Failed {
			return "a single selection fails but the combined one does not: " + both.String()
		}
		if both.Cats&(a.Cats|b.Cats) == 0 {
			return "different error categories: " + both.String() + " vs " + a.String() + " / " + b.String()
		}
		return ""
	}
	if both.Failed {
		return "the combined selection fails but the single ones do not: " + both.String()
	}
	if a.Val.K != jv.Arr || b.Val.K != jv.Arr {
		return "single selections are not arrays: " + a.String() + " / " + b.String()
	}
	concat := run.Outcome{Val: jv.VArr(append(append([]jv.Val{}, a.Val.A...), b.Val.A...))}
	if loose {
		// only the nested arrays may be permuted, not the two positions
		if both.Val.K != jv.Arr || len(both.Val.A) != 2 {
			return "combined selection is not a pair: " + both.String()
		}
		for i := 0; i < 2; i++ {
			if msg := run.SameOutcome(run.Outcome{Val: both.Val.A[i]}, run.Outcome{Val: concat.Val.A[i]}, true); msg != "" {
				return "[e1, e2] differs from [e1] ++ [e2]: " + msg
			}
		}
		return ""
	}
	if msg := run.SameOutcome(both, concat, false); msg != "" {
		return "[e1, e2] differs from [e1] ++ [e2]: " + msg
	}
	return ""
}

// arrayChain returns a field path (depth <= 3) to an array inside doc.
func arrayChain(t *rapid.T, doc jv.Val) *ast.Chain {
	type cand struct {
		path []string
	}
	var cs []cand
	var walk func(v jv.Val, path []string, depth int)
	walk = func(v jv.Val, path []string, depth int) {
		if v.K == jv.Arr && len(path) > 0 {
			cs = append(cs, cand{append([]string{}, path...)})
		}
		if v.K == jv.Obj && depth < 3 {
			for _, m := range v.O {
				walk(m.V, append(path, m.K), depth+1)
			}
		}
	}
	walk(doc, nil, 0)
	if len(cs) == 0 {
		return nil
	}
	p := cs[rapid.IntRange(0, len(cs)-1).Draw(t, "arraypath")].path
	c := ast.F(p[0])
	for _, k := range p[1:] {
		c = c.With(ast.Step{Kind: ast.SField, Name: k})
	}
	return c
}

func isBareStarExpr(e ast.Expr) bool {
	c, ok := e.(*ast.Chain)
	return ok && c.Head.Kind == ast.HImplicit && len(c.Steps) == 1 && c.Steps[0].Kind == ast.SStar
}

func init() {
	customReplays["custom:c17-concat"] = func(r run.Replay) string {
		if len(r.Calls) != 3 {
			return "malformed replay"
		}
		return c17Concat(r.Calls, r.Loose)
	}
}
