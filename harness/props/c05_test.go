package props

import (
	"fmt"
	"math/big"
	"strings"
	"testing"

	"pgregory.net/rapid"

	"verif/harness/ast"
	"verif/harness/gen"
	"verif/harness/jv"
	"verif/harness/model"
	"verif/harness/run"
)

// decText draws a decimal with 1..34 significant digits and an exponent in
// [-emax, emax], as JSON number text.
func decText(t *rapid.T, emax int) string {
	nd := 1
	switch rapid.IntRange(0, 5).Draw(t, "ndkind") {
	case 0:
		nd = 1
	case 1:
		nd = 34
	case 2:
		nd = rapid.IntRange(30, 34).Draw(t, "nd")
	case 3:
		nd = rapid.IntRange(15, 18).Draw(t, "nd")
	default:
		nd = rapid.IntRange(1, 34).Draw(t, "nd")
	}
	digits := make([]byte, nd)
	fill := rapid.IntRange(0, 5).Draw(t, "fill")
	for i := range digits {
		switch fill {
		case 0:
			digits[i] = '9'
		case 1:
			digits[i] = '0'
		case 2:
			digits[i] = "13579"[i%5]
		default:
			digits[i] = byte('0' + rapid.IntRange(0, 9).Draw(t, "d"))
		}
	}
	if digits[0] == '0' {
		digits[0] = byte('1' + rapid.IntRange(0, 8).Draw(t, "d0"))
	}
	if fill == 1 && nd > 1 && rapid.Bool().Draw(t, "last") {
		digits[nd-1] = byte('1' + rapid.IntRange(0, 8).Draw(t, "dl"))
	}
	neg := rapid.IntRange(0, 2).Draw(t, "neg") == 0
	var exp int
	switch rapid.IntRange(0, 4).Draw(t, "expkind") {
	case 0, 1:
		exp = rapid.IntRange(-nd-2, 3).Draw(t, "exp")
	case 2:
		exp = rapid.IntRange(-40, 40).Draw(t, "exp")
	default:
		exp = rapid.IntRange(-emax, emax).Draw(t, "exp")
	}
	s := string(digits)
	var out string
	switch rapid.IntRange(0, 2).Draw(t, "form") {
	case 0:
		// plain positional if short enough
		if exp <= 0 && -exp < 60 {
			if -exp >= len(s) {
				out = "0." + strings.Repeat("0", -exp-len(s)) + s
			} else if exp == 0 {
				out = s
			} else {
				out = s[:len(s)+exp] + "." + s[len(s)+exp:]
			}
		} else if exp > 0 && exp < 40 {
			out = s + strings.Repeat("0", exp)
		}
	case 1:
		if len(s) > 1 {
			out = fmt.Sprintf("%s.%s%s", s[:1], s[1:], expMarker(t, exp+len(s)-1))
		}
	}
	if out == "" {
		out = s + expMarker(t, exp)
	}
	if rapid.IntRange(0, 9).Draw(t, "zero") == 0 {
		out = gen.Pick(t, "zerotext", []string{"0", "0.0", "0e10", "0.000", "-0"})
		return out
	}
	if neg {
		out = "-" + out
	}
	return out
}

// expMarker spells an exponent part: e / E, optional + sign, optional leading zeros.
func expMarker(t *rapid.T, exp int) string {
	m := gen.Pick(t, "expmarker", []string{"e", "E"})
	sign := ""
	if exp >= 0 && rapid.IntRange(0, 2).Draw(t, "expplus") == 0 {
		sign = "+"
	}
	if exp < 0 {
		sign = "-"
		exp = -exp
	}
	zeros := ""
	if rapid.IntRange(0, 5).Draw(t, "expzeros") == 0 {
		zeros = "0"
	}
	return fmt.Sprintf("%s%s%s%d", m, sign, zeros, exp)
}

var detourTexts = []string{"0.1", "0.2", "0.3", "9007199254740993", "9007199254740992", "9223372036854775808", "9223372036854775807", "10000000000000000000001", "1", "3", "7", "0.7", "1.1", "2.2", "3.3", "100", "1e22", "0.000001", "123456789.123456789", "25E-1", "1999E-3", "5E-1", "15E-1", "1E0", "1E+2", "12E-1", "-25E-1", "1.5E0", "0E0", "1e-0", "25e-01",
	// the limits of the integer kinds with a fraction (an int64 fast path that truncates first goes wrong here)
	"-9223372036854775808.5", "-9223372036854775807.5", "9223372036854775807.5", "9223372036854775808.5", "-9223372036854775809.5", "18446744073709551615.5", "-2147483648.5", "2147483647.5", "4294967295.5",
	"9007199254740992.5", "-9007199254740992.5", "-9223372036854775808.0000000001", "9223372036854775807.9999999999", "-0.5", "0.5", "-1.5", "-0.0000000000000000000000000000000001", "127.5", "-128.5", "255.5", "32767.5", "-32768.5", "65535.5"}

// log10Floor returns floor(log10(|x|)) for x != 0.
func log10Floor(x *big.Rat) int {
	a := new(big.Rat).Abs(x)
	n := len(a.Num().String()) - len(a.Denom().String())
	// 10^n may be slightly off; adjust
	pow := func(k int) *big.Rat {
		p := new(big.Int).Exp(big.NewInt(10), big.NewInt(int64(abs(k))), nil)
		if k >= 0 {
			return new(big.Rat).SetInt(p)
		}
		return new(big.Rat).SetFrac(big.NewInt(1), p)
	}
	for a.Cmp(pow(n)) < 0 {
		n--
	}
	for a.Cmp(pow(n+1)) >= 0 {
		n++
	}
	return n
}

func abs(i int) int {
	if i < 0 {
		return -i
	}
	return i
}

func pow10(k int) *big.Rat {
	p := new(big.Int).Exp(big.NewInt(10), big.NewInt(int64(abs(k))), nil)
	if k >= 0 {
		return new(big.Rat).SetInt(p)
	}
	return new(big.Rat).SetFrac(big.NewInt(1), p)
}

// decimal128 range
const (
	d128MaxExp = 6144  // largest value < 10^6145
	d128MinExp = -6143 // smallest normal 10^-6143
)

// d128Slack = 1e6146. The decimal128 package represents more than the IEEE
// range: its coefficient may exceed 34 digits, and magnitudes somewhat above
// 1.2e6145 are still finite (1.5e6145 is not). Exact results in
// [1e6145, 1e6146) are therefore not judged (an error and an accurate finite
// value are both acceptable there); from 1e6146 on an overflow error is required.
var d128Slack = new(big.Rat).SetInt(new(big.Int).Exp(big.NewInt(10), big.NewInt(6146), nil))

// exactlyRepresentable: x is a decimal with <= 34 significant digits inside
// the normal range of decimal128.
func exactlyRepresentable(x *big.Rat) bool {
	if x.Sign() == 0 {
		return true
	}
	d, ok := jv.SigDigits(x)
	if !ok || d > 34 {
		return false
	}
	e := log10Floor(x)
	return e <= d128MaxExp && e-d+1 >= d128MinExp-33
}

// arithVerdict compares the library's numeric result with the exact value x.
// Returns "" if acceptable.
func arithVerdict(x *big.Rat, got jv.Val) string {
	if got.K != jv.Num {
		return "result is not a number: " + got.JSON()
	}
	if exactlyRepresentable(x) {
		if got.R.Cmp(x) != 0 {
			return fmt.Sprintf("exact result %s is representable, got %s", jv.RatText(x), got.JSON())
		}
		return ""
	}
	e := log10Floor(x)
	ulp := pow10(e - 33)
	diff := new(big.Rat).Sub(got.R, x)
	diff.Abs(diff)
	if diff.Cmp(ulp) > 0 {
		return fmt.Sprintf("result %s is more than one unit of the 34th digit away from the exact value %s", got.JSON(), x.FloatString(50))
	}
	return ""
}

type c05Operand struct {
	text string
	r    *big.Rat
	expr ast.Expr
}

// C05: arithmetic on JSON numbers is exact decimal arithmetic.
func TestC05_Arith(t *testing.T) {
	c := collector("C05", "arith")
	check(t, func(t *rapid.T) {
		emax := 30
		if rapid.IntRange(0, 5).Draw(t, "wide") == 0 {
			emax = 3000
		}
		if rapid.IntRange(0, 40).Draw(t, "extreme") == 0 {
			emax = 6100
		}
		var keys []string
		var nodes []run.Node
		var prev *big.Rat
		operand := func(i int) c05Operand {
			var txt string
			if rapid.IntRange(0, 5).Draw(t, "detour") == 0 {
				txt = gen.Pick(t, "detourtext", detourTexts)
			} else {
				txt = decText(t, emax)
			}
			if prev != nil && prev.Sign() != 0 && rapid.IntRange(0, 5).Draw(t, "related") == 0 {
				// an operand that almost cancels (or almost equals) the previous
				// one: its negation or itself, moved by one unit of its last
				// digit, of its 34th digit, by 1 or by a half
				d, _ := jv.SigDigits(prev)
				e := log10Floor(prev)
				deltas := []*big.Rat{new(big.Rat), pow10(e - d + 1), pow10(e - 33), big.NewRat(1, 1), big.NewRat(1, 2), pow10(e - 34)}
				delta := gen.Pick(t, "delta", deltas)
				r := new(big.Rat).Set(prev)
				if rapid.Bool().Draw(t, "negate") {
					r.Neg(r)
				}
				if rapid.Bool().Draw(t, "deltasign") {
					r.Add(r, delta)
				} else {
					r.Sub(r, delta)
				}
				if exactlyRepresentable(r) && r.Sign() != 0 {
					if rt := jv.RatText(r); len(rt) < 200 && jv.IsJSONNumber(rt) {
						txt = rt
					}
				}
			}
			r, ok := jv.ParseNum(txt)
			if !ok {
				t.Fatalf("harness: bad number text %q", txt)
			}
			prev = r
			o := c05Operand{text: txt, r: r}
			if rapid.IntRange(0, 4).Draw(t, "signed") == 0 {
				// the operand written with a unary sign: -E where E denotes the
				// negated number (or +E, -(-E)), E a literal or a field
				var inner ast.Expr
				sign := gen.Pick(t, "unary", []string{"-", "-", "+", "--"})
				ntxt := txt
				if sign == "-" {
					if strings.HasPrefix(txt, "-") {
						ntxt = txt[1:]
					} else {
						ntxt = "-" + txt
					}
				}
				nr, _ := jv.ParseNum(ntxt)
				if rapid.Bool().Draw(t, "signedlit") {
					inner = ast.Lit(jv.Val{K: jv.Num, R: nr, T: ntxt})
				} else {
					k := fmt.Sprintf("s%d", i)
					keys = append(keys, k)
					nodes = append(nodes, run.Node{T: gen.Pick(t, "signedcarrier", []string{"json.Number", "decimal"}), S: ntxt})
					inner = ast.F(k)
				}
				switch sign {
				case "--":
					o.expr = &ast.Unary{Op: "-", X: ast.Paren(&ast.Unary{Op: "-", X: inner})}
				default:
					o.expr = &ast.Unary{Op: sign, X: inner}
				}
				if rapid.IntRange(0, 3).Draw(t, "signedparen") == 0 {
					o.expr = ast.Paren(o.expr)
				}
				return o
			}
			switch rapid.IntRange(0, 3).Draw(t, "supply") {
			case 0:
				o.expr = ast.Lit(jv.Val{K: jv.Num, R: r, T: txt})
			case 1:
				k := fmt.Sprintf("d%d", i)
				keys = append(keys, k)
				nodes = append(nodes, run.Node{T: "decimal", S: txt})
				o.expr = ast.F(k)
			default:
				k := fmt.Sprintf("n%d", i)
				keys = append(keys, k)
				nodes = append(nodes, run.Node{T: "json.Number", S: txt})
				o.expr = ast.F(k)
			}
			return o
		}
		kind := rapid.IntRange(0, 11).Draw(t, "kind")
		var e ast.Expr
		var exact *big.Rat     // expected exact numeric value
		var expBool *bool      // expected boolean (comparisons)
		expErr := model.Cat(0) // expected error
		undet := ""
		label := ""
		switch {
		case kind <= 5: // binary operator
			op := gen.Pick(t, "op", []string{"+", "-", "*", "/", "//", "%"})
			a, b := operand(0), operand(1)
			e = ast.Bin(op, a.expr, b.expr)
			label = "op" + op
			switch op {
			case "+":
				exact = new(big.Rat).Add(a.r, b.r)
			case "-":
				exact = new(big.Rat).Sub(a.r, b.r)
			case "*":
				exact = new(big.Rat).Mul(a.r, b.r)
			case "/":
				if b.r.Sign() == 0 {
					expErr = model.NaN
				} else {
					exact = new(big.Rat).Quo(a.r, b.r)
				}
			case "//", "%":
				if b.r.Sign() == 0 {
					expErr = model.NaN
				} else if a.r.Sign() != 0 && a.r.Sign() != b.r.Sign() {
					undet = "intdiv-mixed-sign"
				} else {
					q := new(big.Rat).Quo(a.r, b.r)
					qi := new(big.Int).Quo(q.Num(), q.Denom())
					qr := new(big.Rat).SetInt(qi)
					if op == "//" && new(big.Rat).Abs(q).Cmp(d128Slack) >= 0 {
						// the integer quotient lies beyond the decimal range:
						// an overflow, to be reported like that of any other
						// operator
						expErr = model.NaN
						label += "/overflow"
					} else if !exactlyRepresentable(qr) {
						undet = "integer-quotient-beyond-34-digits"
					} else if op == "//" {
						exact = qr
					} else {
						exact = new(big.Rat).Sub(a.r, new(big.Rat).Mul(b.r, qr))
						if !exactlyRepresentable(exact) {
							undet = "remainder-beyond-34-digits"
						}
					}
				}
			}
		case kind == 6: // unary
			a := operand(0)
			op := gen.Pick(t, "uop", []string{"-", "+"})
			e = &ast.Unary{Op: op, X: a.expr}
			label = "unary" + op
			exact = new(big.Rat).Set(a.r)
			if op == "-" {
				exact.Neg(exact)
			}
		case kind == 7: // abs ceil floor to_number
			a := operand(0)
			fn := gen.Pick(t, "fn", []string{"abs", "ceil", "floor", "to_number"})
			label = fn
			switch fn {
			case "abs":
				e = ast.Call(fn, ast.A(a.expr))
				exact = new(big.Rat).Abs(a.r)
			case "ceil", "floor":
				e = ast.Call(fn, ast.A(a.expr))
				q := new(big.Int)
				m := new(big.Int)
				q.DivMod(a.r.Num(), a.r.Denom(), m)
				exact = new(big.Rat).SetInt(q)
				if fn == "ceil" && m.Sign() != 0 {
					exact.Add(exact, big.NewRat(1, 1))
				}
			default:
				txt := a.text
				if !jv.IsJSONNumber(txt) {
					undet = "to_number-sloppy"
				}
				e = ast.Call(fn, ast.A(ast.RawS(txt)))
				exact = a.r
			}
		case kind == 8 || kind == 9: // sum / avg
			n := rapid.IntRange(0, 6).Draw(t, "n")
			items := make([]ast.Expr, n)
			sum := new(big.Rat)
			prefixExact := true
			for i := 0; i < n; i++ {
				o := operand(i)
				items[i] = o.expr
				sum.Add(sum, o.r)
				if !exactlyRepresentable(sum) {
					prefixExact = false
				}
			}
			arr := &ast.Chain{Head: ast.Head{Kind: ast.HMultiList, Items: items}}
			if n == 0 {
				arr = ast.Lit(jv.VArr(nil))
			}
			if kind == 8 {
				label = "sum"
				e = ast.Call("sum", ast.A(arr))
				exact = sum
			} else {
				label = "avg"
				e = ast.Call("avg", ast.A(arr))
				if n == 0 {
					undet = "avg-empty" // null; covered by C02
				} else {
					exact = new(big.Rat).Quo(sum, big.NewRat(int64(n), 1))
				}
			}
			if !prefixExact {
				undet = "sum-with-inexact-prefix"
			}
		default: // comparison
			op := gen.Pick(t, "cmp", []string{"<", "<=", ">", ">=", "==", "!="})
			a := operand(0)
			b := operand(1)
			if rapid.IntRange(0, 3).Draw(t, "same") == 0 {
				b.r = a.r
				b.expr = ast.Lit(jv.Val{K: jv.Num, R: a.r, T: a.text})
			}
			e = ast.Bin(op, a.expr, b.expr)
			label = "cmp"
			cmp := a.r.Cmp(b.r)
			var r bool
			switch op {
			case "<":
				r = cmp < 0
			case "<=":
				r = cmp <= 0
			case ">":
				r = cmp > 0
			case ">=":
				r = cmp >= 0
			case "==":
				r = cmp == 0
			default:
				r = cmp != 0
			}
			expBool = &r
		}
		doc := run.Node{T: "object", K: keys, A: nodes}
		text := ast.RenderWith(e, gen.Chooser{T: t})
		c.Case()
		if undet != "" {
			c.Skip(undet)
			return
		}
		band := false
		// range: overflow must be an error; underflow is not judged
		if exact != nil && exact.Sign() != 0 {
			lf := log10Floor(exact)
			if lf == d128MaxExp+1 && new(big.Rat).Abs(exact).Cmp(d128Slack) < 0 {
				// see d128Slack: the package's range ends somewhere inside this
				// decade, not at 9.99...e6144
				band = true
			}
			if lf > d128MaxExp && !band {
				expErr = model.NaN
				exact = nil
				label += "/overflow"
			} else if lf < d128MinExp {
				c.Skip("underflow-not-judged")
				return
			}
		}
		call := run.Call{API: "search", Expr: text, Doc: &doc}
		run.Watch(c, "arith", call)
		out := run.Search(text, doc.Build())
		msg := ""
		switch {
		case out.Panic != "":
			msg = "library panicked: " + out.Panic
		case band && out.Failed && out.Cats&model.NaN != 0 && expErr == 0 && expBool == nil:
			// in the boundary decade an overflow error is as good as an
			// accurate finite value (an infinite or NaN value is not)
			label += "/overflow-boundary"
		case expErr != 0:
			if !out.Failed || out.Cats&expErr == 0 {
				msg = fmt.Sprintf("expected a %v error, got %s", expErr.Names(), out)
			}
		case out.Failed:
			msg = "unexpected error: " + out.String()
		case out.Info.BadNumber != "" || out.Info.Foreign != "":
			msg = "result is not a finite number: " + out.String()
		case expBool != nil:
			if out.Val.K != jv.Bool || out.Val.B != *expBool {
				msg = fmt.Sprintf("expected %v, got %s", *expBool, out)
			}
		default:
			msg = arithVerdict(exact, out.Val)
		}
		if msg != "" {
			rp := run.Replay{Check: "arith", Kind: "custom:c05", Calls: []run.Call{call}, Message: msg}
			ex := map[string]any{}
			if expErr != 0 {
				ex["errors"] = expErr.Names()
			} else if expBool != nil {
				ex["bool"] = *expBool
			} else {
				ex["exact"] = exact.RatString()
			}
			rp.Extra = mustJSON(ex)
			c.Fail(t, rp, label)
			return
		}
		c.Label(label)
		nontrivial := expErr != 0
		if exact != nil {
			d, ok := jv.SigDigits(exact)
			if !ok || d >= 30 || !exactlyRepresentable(exact) {
				nontrivial = true
			}
			if new(big.Rat).Abs(exact).Cmp(big.NewRat(1<<53, 1)) > 0 {
				nontrivial = true
			}
		}
		if expBool != nil {
			nontrivial = true
		}
		if nontrivial {
			c.NonTrivial(text+"\x00"+doc.Text(), func() any {
				return map[string]any{"expr": text, "doc": doc.Text(), "outcome": out.String()}
			})
		}
	})
}

func init() {
	customReplays["custom:c05"] = func(r run.Replay) string {
		var ex struct {
			Errors []string `json:"errors"`
			Bool   *bool    `json:"bool"`
			Exact  string   `json:"exact"`
		}
		if err := jsonUnmarshal(r.Extra, &ex); err != nil {
			return "malformed replay: " + err.Error()
		}
		for _, call := range r.Calls {
			out := doCall(call)
			switch {
			case out.Panic != "":
				return "library panicked: " + out.Panic
			case len(ex.Errors) > 0:
				want := model.CatFromNames(ex.Errors)
				if !out.Failed || out.Cats&want == 0 {
					return fmt.Sprintf("expected a %v error, got %s", ex.Errors, out)
				}
			case out.Failed:
				return "unexpected error: " + out.String()
			case out.Info.BadNumber != "" || out.Info.Foreign != "":
				return "result is not a finite number: " + out.String()
			case ex.Bool != nil:
				if out.Val.K != jv.Bool || out.Val.B != *ex.Bool {
					return fmt.Sprintf("expected %v, got %s", *ex.Bool, out)
				}
			default:
				x, ok := new(big.Rat).SetString(ex.Exact)
				if !ok {
					return "malformed replay"
				}
				if msg := arithVerdict(x, out.Val); msg != "" {
					return msg
				}
			}
		}
		return ""
	}
}
