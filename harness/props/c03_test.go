package props

import (
	"fmt"
	"os"
	"os/exec"
	"strconv"
	"strings"
	"testing"

	"pgregory.net/rapid"

	"verif/harness/ast"
	"verif/harness/gen"
	"verif/harness/jv"
	"verif/harness/model"
	"verif/harness/run"
)

var hostileLeaves = []run.Node{
	{T: "float64", S: "NaN"}, {T: "float64", S: "+Inf"}, {T: "float64", S: "-Inf"}, {T: "float64", S: "-0"}, {T: "float32", S: "NaN"}, {T: "float32", S: "+Inf"},
	{T: "float64", S: "1e308"}, {T: "float64", S: "5e-324"}, {T: "float64", S: "9223372036854775807"}, {T: "float64", S: "1.5"}, {T: "float32", S: "3.4e38"},
	{T: "int64", S: "9223372036854775807"}, {T: "int64", S: "-9223372036854775808"}, {T: "uint64", S: "18446744073709551615"}, {T: "uint", S: "18446744073709551615"},
	{T: "int", S: "-9223372036854775808"}, {T: "int8", S: "-128"}, {T: "uint8", S: "255"}, {T: "int32", S: "-2147483648"}, {T: "uint32", S: "4294967295"}, {T: "int16", S: "32767"}, {T: "uint16", S: "65535"},
	{T: "json.Number", S: ""}, {T: "json.Number", S: "NaN"}, {T: "json.Number", S: "Infinity"}, {T: "json.Number", S: "-inf"}, {T: "json.Number", S: "1e400"}, {T: "json.Number", S: "1e-7000"}, {T: "json.Number", S: "0x1"},
	{T: "json.Number", S: "--1"}, {T: "json.Number", S: "1_000"}, {T: "json.Number", S: " 1"}, {T: "json.Number", S: "abc"}, {T: "json.Number", S: "1e"}, {T: "json.Number", S: "."}, {T: "json.Number", S: "9223372036854775808"},
	{T: "json.Number", S: "1.5"}, {T: "json.Number", S: "-0"}, {T: "json.Number", S: "99999999999999999999999999999999999999999999"}, {T: "json.Number", S: "\xff"},
	{T: "decimal", S: "NaN"}, {T: "decimal", S: "Inf"}, {T: "decimal", S: "-Inf"}, {T: "decimal", S: "1e-6176"}, {T: "decimal", S: "9.999999999999999999999999999999999e6144"}, {T: "decimal", S: "-0"},
	{T: "nilslice"}, {T: "nilmap"}, {T: "string", S: "\xff\xfe"}, {T: "string", S: "a\xc3"}, {T: "string", S: "\x00"},
}

// hostilize replaces some leaves (and containers) of the description by
// hostile Go values.
func hostilize(t *rapid.T, n run.Node, p int) run.Node {
	if rapid.IntRange(0, 99).Draw(t, "hostile?") < p {
		if rapid.IntRange(0, 5).Draw(t, "foreign?") == 0 {
			return run.Node{T: gen.Pick(t, "foreign", run.ForeignKinds)}
		}
		return gen.Pick(t, "leaf", hostileLeaves)
	}
	switch n.T {
	case "array", "object":
		if rapid.IntRange(0, 11).Draw(t, "nilcontainer") == 0 {
			// the typed nil of the same kind: a legal, empty container, exactly
			// where an array or object is expected
			if n.T == "array" {
				return run.Node{T: "nilslice"}
			}
			return run.Node{T: "nilmap"}
		}
		a := make([]run.Node, len(n.A))
		for i, e := range n.A {
			a[i] = hostilize(t, e, p)
		}
		n.A = a
	}
	return n
}

func containsPad(e ast.Expr) bool {
	found := false
	ast.Walk(e, func(x ast.Expr) {
		if c, ok := x.(*ast.Chain); ok {
			if c.Head.Kind == ast.HCall && strings.HasPrefix(c.Head.Name, "pad_") {
				found = true
			}
			for _, s := range c.Steps {
				if s.Kind == ast.SCall && strings.HasPrefix(s.Name, "pad_") {
					found = true
				}
			}
		}
	})
	return found
}

// noPanic runs the three entry points and returns "" if none panics and every
// error can be formatted.
func noPanic(text string, data func() any) string {
	check := func(o run.Outcome, what string) string {
		if o.Panic != "" {
			return what + " panicked: " + o.Panic
		}
		if o.FmtPanic != "" {
			return what + ": formatting the error panicked: " + o.FmtPanic
		}
		if o.Failed && o.NonNil {
			return what + ": non-nil result returned together with an error"
		}
		return ""
	}
	ce, co := run.Compile(text)
	if m := check(co, "Compile"); m != "" {
		return m
	}
	if m := check(run.Search(text, data()), "Search"); m != "" {
		return m
	}
	if ce != nil {
		if m := check(run.ExprSearch(ce, data()), "Expression.Search"); m != "" {
			return m
		}
	}
	return ""
}

// C03 (a): well-formed expressions with hostile integers on hostile Go data.
func TestC03_Hostile(t *testing.T) {
	c := collector("C03", "hostile")
	check(t, func(t *rapid.T) {
		doc := gen.Doc(t, gen.DocCfg{MaxDepth: 3, MaxFan: 4})
		cfg := gen.ExprCfg{MaxDepth: 2, MaxSteps: 4, Funcs: true, Let: true, Arith: true, Compare: true, HostileInt: true}
		g := &gen.G{T: t, Root: doc, Cfg: cfg}
		var e ast.Expr
		var members []jv.Member
		if rapid.Bool().Draw(t, "callform") {
			// one call with arguments of the fitting kinds, read from the document
			e, doc, _ = genCall(t)
			_ = members
		} else {
			e = g.Expr(doc, 0)
		}
		c.Case()
		if containsPad(e) {
			c.Skip("pad-width-from-hostile-data (legitimately huge result)")
			return
		}
		text := ast.RenderWith(e, gen.Chooser{T: t})
		node := hostilize(t, run.FromVal(doc), rapid.IntRange(5, 40).Draw(t, "hostility"))
		call := run.Call{API: "search", Expr: text, Doc: &node}
		run.Watch(c, "hostile", call)
		if msg := noPanic(text, node.Build); msg != "" {
			c.Fail(t, run.Replay{Check: "hostile", Kind: "nopanic", Calls: []run.Call{call, {API: "expr-search", Expr: text, Doc: &node}}, Message: msg}, ast.Shape(e))
			return
		}
		c.Label("ok")
		risky := !node.IsPlainJSON()
		ast.Walk(e, func(x ast.Expr) {
			if b, ok := x.(*ast.Binary); ok && ast.Prec(b.Op) >= 6 {
				risky = true
			}
			if ch, ok := x.(*ast.Chain); ok {
				if ch.Head.Kind == ast.HCall {
					risky = true
				}
				for _, s := range ch.Steps {
					if s.Kind == ast.SSlice || s.Kind == ast.SCall {
						risky = true
					}
				}
			}
		})
		if risky {
			c.NonTrivial(text+"\x00"+node.Text(), func() any {
				return map[string]any{"expr": text, "data": truncate(node.Text(), 300)}
			})
		}
	})
}

var corpusExprs []string

func loadCorpusExprs(tb testing.TB) []string {
	if corpusExprs == nil {
		seen := map[string]bool{}
		for _, c := range loadCorpus(tb) {
			if !seen[c.Expr] {
				seen[c.Expr] = true
				corpusExprs = append(corpusExprs, c.Expr)
			}
		}
	}
	return corpusExprs
}

var hostileFragments = []string{"9223372036854775807", "-9223372036854775808", "9223372036854775808", "99999999999999999999", "`", "'", "\"", "\\", "\\u", "\\uD800", "\\uDC00\\uD800", "[", "[?", "[*", "[:", "[::", "(", "{", "&", "&&&", "$", "$$", "@@", "..", ".*.*", "[][]", "||", "|||", "let $", " in ", "=", "`{`", "`[1,`", "`1e400`", "`-`", "`\"\\ud800\"`", "\x00", "\xff", "\xc3", "\xed\xa0\x80", "\xf4\x90\x80\x80", "×", "÷", "−", "`1` / `0`", "[::0]", "[0:0:0]", "[-0]", "[00]", "abs(", "zip()", "merge()", "map(&", "sort_by(@,&", "&&", "!", "!!", "-", "--", "+", "// ", "%", "<=", ">=", "==", "!="}

// byteMutate applies a few byte-level edits.
func byteMutate(t *rapid.T, s string) string {
	b := []byte(s)
	n := rapid.IntRange(1, 3).Draw(t, "edits")
	for i := 0; i < n; i++ {
		pos := 0
		if len(b) > 0 {
			pos = rapid.IntRange(0, len(b)).Draw(t, "pos")
		}
		switch rapid.IntRange(0, 5).Draw(t, "edit") {
		case 0: // truncate
			b = b[:pos]
		case 1: // delete a byte
			if pos < len(b) {
				b = append(b[:pos], b[pos+1:]...)
			}
		case 2: // insert a random byte
			b = append(b[:pos], append([]byte{rapid.Byte().Draw(t, "byte")}, b[pos:]...)...)
		case 3: // insert a hostile fragment
			f := gen.Pick(t, "frag", hostileFragments)
			b = append(b[:pos], append([]byte(f), b[pos:]...)...)
		case 4: // duplicate a region
			if pos < len(b) {
				end := rapid.IntRange(pos, minInt(len(b), pos+8)).Draw(t, "end")
				b = append(b[:end], append(append([]byte{}, b[pos:end]...), b[end:]...)...)
			}
		default: // flip a bit
			if pos < len(b) {
				b[pos] ^= 1 << uint(rapid.IntRange(0, 7).Draw(t, "bit"))
			}
		}
	}
	return string(b)
}

var c03FixedData = run.Node{T: "object", K: []string{"foo", "a", "b", "s", "n", "o", "x"}, A: []run.Node{
	{T: "array", A: []run.Node{{T: "object", K: []string{"bar", "a"}, A: []run.Node{{T: "json.Number", S: "1"}, {T: "string", S: "aé日😀"}}}, {T: "null"}, {T: "array", A: []run.Node{{T: "json.Number", S: "2"}}}}},
	{T: "array", A: []run.Node{{T: "json.Number", S: "3"}, {T: "json.Number", S: "1"}, {T: "float64", S: "NaN"}, {T: "string", S: "x"}}},
	{T: "string", S: "subject string"}, {T: "string", S: "é\xffa"}, {T: "int64", S: "9223372036854775807"},
	{T: "object", K: []string{"p", "q"}, A: []run.Node{{T: "decimal", S: "NaN"}, {T: "foreign:struct"}}}, {T: "nilslice"}}}

// C03 (a'): two occurrences of the same hostile or foreign value combined by
// every binary construct (comparisons of a value with itself or an equal one
// reach code paths that mixed operands never do).
func TestC03_Pairs(t *testing.T) {
	c := collector("C03", "pairs")
	check(t, func(t *rapid.T) {
		pickLeaf := func(label string) run.Node {
			if rapid.IntRange(0, 2).Draw(t, label+"-foreign") == 0 {
				return run.Node{T: gen.Pick(t, label, run.ForeignKinds)}
			}
			return gen.Pick(t, label, hostileLeaves)
		}
		p := pickLeaf("p")
		q := p
		if rapid.IntRange(0, 3).Draw(t, "different") == 0 {
			q = pickLeaf("q")
		}
		wrap := func(n run.Node, label string) run.Node {
			switch rapid.IntRange(0, 4).Draw(t, label) {
			case 0:
				return run.Node{T: "array", A: []run.Node{n}}
			case 1:
				return run.Node{T: "object", K: []string{"k"}, A: []run.Node{n}}
			case 2:
				return run.Node{T: "array", A: []run.Node{{T: "json.Number", S: "1"}, n, n}}
			}
			return n
		}
		w := rapid.IntRange(0, 4).Draw(t, "wrapkind")
		_ = w
		pn, qn := wrap(p, "wrap"), q
		if rapid.Bool().Draw(t, "samewrap") {
			qn = pn
			if q.T != p.T || q.S != p.S {
				qn = wrap(q, "wrapq")
			}
		}
		node := run.Node{T: "object", K: []string{"p", "q", "l"}, A: []run.Node{pn, qn, {T: "array", A: []run.Node{pn, qn, {T: "null"}}}}}
		P, Q, L := ast.F("p"), ast.F("q"), ast.F("l")
		ml := func(es ...ast.Expr) ast.Expr { return &ast.Chain{Head: ast.Head{Kind: ast.HMultiList, Items: es}} }
		forms := []ast.Expr{
			ast.Bin("==", P, Q), ast.Bin("!=", P, Q), ast.Bin("==", P, P), ast.Bin("<", P, Q), ast.Bin(">=", P, P),
			ast.Bin("==", ml(P), ml(Q)), ast.Bin("==", L, L), ast.Call("contains", ast.A(L), ast.A(P)), ast.Call("contains", ast.A(ml(P, Q)), ast.A(Q)),
			L.With(ast.Step{Kind: ast.SFilter, Cond: ast.Bin("==", ast.Cur(), &ast.Chain{Head: ast.Head{Kind: ast.HRoot}, Steps: []ast.Step{{Kind: ast.SField, Name: "p"}}})}),
			ast.Call("sort", ast.A(ml(P, Q))), ast.Call("max", ast.A(ml(P, Q))), ast.Call("min", ast.A(L)), ast.Call("sort_by", ast.A(L), ast.Ref(ast.Cur())), ast.Call("max_by", ast.A(L), ast.Ref(ast.Cur())),
			ast.Call("group_by", ast.A(L), ast.Ref(ast.Cur())), ast.Call("sum", ast.A(ml(P, Q))), ast.Call("avg", ast.A(L)),
			ast.Bin("+", P, Q), ast.Bin("-", P, P), ast.Bin("*", P, Q), ast.Bin("/", P, Q), ast.Bin("//", P, Q), ast.Bin("%", P, Q), &ast.Unary{Op: "-", X: P}, &ast.Unary{Op: "+", X: P},
			ast.Bin("&&", P, Q), ast.Bin("||", P, Q), &ast.Unary{Op: "!", X: P}, ast.Call("not_null", ast.A(P), ast.A(Q)), ast.Call("type", ast.A(P)), ast.Call("to_string", ast.A(L)),
			ast.Call("to_number", ast.A(P)), ast.Call("to_array", ast.A(P)), ast.Call("length", ast.A(P)), ast.Call("reverse", ast.A(P)), ast.Call("abs", ast.A(P)), ast.Call("ceil", ast.A(P)), ast.Call("floor", ast.A(P)),
			ast.Call("join", ast.A(P), ast.A(L)), ast.Call("merge", ast.A(P), ast.A(Q)), ast.Call("zip", ast.A(P), ast.A(Q)), ast.Call("keys", ast.A(P)), ast.Call("values", ast.A(P)), ast.Call("items", ast.A(P)),
			ast.Call("from_items", ast.A(ml(ml(P, Q)))), ast.Call("starts_with", ast.A(P), ast.A(Q)), ast.Call("find_first", ast.A(ast.RawS("abc")), ast.A(ast.RawS("b")), ast.A(P), ast.A(Q)),
			ast.Call("split", ast.A(ast.RawS("a,b")), ast.A(ast.RawS(",")), ast.A(P)), ast.Call("replace", ast.A(ast.RawS("aa")), ast.A(ast.RawS("a")), ast.A(ast.RawS("b")), ast.A(P)),
			ast.Call("map", ast.Ref(ast.Bin("==", ast.Cur(), P)), ast.A(L)), P.With(ast.Step{Kind: ast.SStar}), P.With(ast.Step{Kind: ast.SListStar}), P.With(ast.Step{Kind: ast.SFlatten}), P.With(ast.Step{Kind: ast.SSlice, Start: ast.I64(0)}),
			P.With(ast.Step{Kind: ast.SIndex, Index: 0}), P.With(ast.Step{Kind: ast.SField, Name: "k"}), &ast.Let{Names: []string{"v"}, Vals: []ast.Expr{P}, Body: ast.Bin("==", ast.Var("v"), Q)},
		}
		e := forms[rapid.IntRange(0, len(forms)-1).Draw(t, "form")]
		text := ast.Render(e)
		c.Case()
		call := run.Call{API: "search", Expr: text, Doc: &node}
		run.Watch(c, "pairs", call)
		if msg := noPanic(text, node.Build); msg != "" {
			c.Fail(t, run.Replay{Check: "pairs", Kind: "nopanic", Calls: []run.Call{call, {API: "expr-search", Expr: text, Doc: &node}}, Message: msg}, ast.Shape(e)+p.T)
			return
		}
		c.Label("ok")
		c.NonTrivial(text+"\x00"+node.Text()+p.T+p.S+q.T+q.S, func() any {
			return map[string]any{"expr": text, "p": p.T + ":" + p.S, "q": q.T + ":" + q.S, "data": truncate(node.Text(), 200)}
		})
	})
}

// C03 (b): arbitrary bytes and mutated corpus expressions.
func TestC03_Bytes(t *testing.T) {
	c := collector("C03", "bytes")
	corpus := loadCorpusExprs(t)
	check(t, func(t *rapid.T) {
		var text string
		kind := rapid.IntRange(0, 6).Draw(t, "kind")
		switch kind {
		case 6:
			// run-structured bytes: one to four runs of a single byte (or short
			// unit), each of a length around a typical limit (message caps,
			// look-back windows, buffers). Uniformly random bytes never produce
			// a kilobyte of continuation bytes or of opening brackets.
			units := []string{"\x80", "\xbf", "\xc0", "\xc3", "\xe2", "\xe2\x82", "\xf0", "\xf0\x9f", "\xff", "\x00", "(", "[", "{", "`", "\"", "'", "\\", " ", "\n", "a", "0", "-", "!", "&", "|", ".", "@", "$", "*", "a.", "[0]", "é", "\ufffd", "'\\", "\"\\u", "`\\`"}
			lens := []int{1, 2, 3, 4, 5, 15, 16, 17, 63, 64, 65, 127, 128, 129, 255, 256, 257, 1023, 1024, 1025, 1026, 4095, 4096, 4097, 8193}
			var b strings.Builder
			for k := rapid.IntRange(1, 4).Draw(t, "nruns"); k > 0; k-- {
				b.WriteString(strings.Repeat(gen.Pick(t, "unit", units), gen.Pick(t, "runlen", lens)))
				if rapid.IntRange(0, 3).Draw(t, "plusvalid") == 0 {
					b.WriteString(gen.Pick(t, "corpuspiece", corpus))
				}
			}
			text = b.String()
		case 0:
			text = string(rapid.SliceOfN(rapid.Byte(), 0, 40).Draw(t, "bytes"))
		case 1:
			// tokens in random order
			n := rapid.IntRange(0, 12).Draw(t, "ntok")
			parts := make([]string, n)
			for i := range parts {
				parts[i] = gen.Pick(t, "tok", append(tokenPalette, hostileFragments...))
			}
			text = strings.Join(parts, gen.Pick(t, "sep", []string{"", " ", ""}))
		case 2, 3:
			text = byteMutate(t, gen.Pick(t, "corpus", corpus))
		default:
			doc := gen.Doc(t, gen.DocCfg{MaxDepth: 2, MaxFan: 3})
			g := &gen.G{T: t, Root: doc, Cfg: fullCfg()}
			valid := ast.RenderWith(g.Expr(doc, 0), gen.Chooser{T: t})
			if rapid.Bool().Draw(t, "tokenlevel") {
				text, _ = mutate(t, valid)
			} else {
				text = byteMutate(t, valid)
			}
		}
		c.Case()
		if strings.Contains(text, "pad_") {
			c.Skip("pad-width (legitimately huge result)")
			return
		}
		call := run.Call{API: "search", Expr: text, Doc: &c03FixedData}
		run.Watch(c, "bytes", call)
		if msg := noPanic(text, c03FixedData.Build); msg != "" {
			c.Fail(t, run.Replay{Check: "bytes", Kind: "nopanic", Calls: []run.Call{call, {API: "expr-search", Expr: text, Doc: &c03FixedData}}, Message: msg}, fmt.Sprint(kind))
			return
		}
		c.Label(fmt.Sprintf("kind-%d", kind))
		// got past the lexer: compiles, or fails after at least 3 tokens
		if spans, ok := ast.TokenSpans(text); ok && len(spans) >= 3 {
			c.NonTrivial(text, func() any { return map[string]any{"expr": text} })
		}
	})
}

// deepExpr builds the nesting family `kind` at depth n.
func deepExpr(kind string, n int) (string, run.Node) {
	data := run.Node{T: "object", K: []string{"a"}, A: []run.Node{{T: "json.Number", S: "1"}}}
	rep := func(s string) string { return strings.Repeat(s, n) }
	switch kind {
	case "paren":
		return rep("(") + "a" + rep(")"), data
	case "not":
		return rep("!") + "a", data
	case "neg":
		return rep("-") + "a", data
	case "list":
		return rep("[") + "a" + rep("]"), data
	case "hash":
		return rep("{a:") + "a" + rep("}"), data
	case "field":
		return "a" + rep(".a"), data
	case "index":
		return "a" + rep("[0]"), data
	case "liststar":
		return "a" + rep("[*]"), data
	case "flatten":
		return "a" + rep("[]"), data
	case "or":
		return "a" + rep("||a"), data
	case "pipe":
		return "a" + rep("|a"), data
	case "plus":
		return "a" + rep("+a"), data
	case "filter":
		return "a" + rep("[?a") + rep("]"), data
	case "call":
		return rep("not_null(") + "a" + rep(")"), data
	case "let":
		return rep("let $x = a in ") + "$x", data
	case "literal":
		return "`" + rep("[") + rep("]") + "`", data
	case "data":
		d := run.Node{T: "json.Number", S: "1"}
		for i := 0; i < n; i++ {
			d = run.Node{T: "array", A: []run.Node{d}}
		}
		return "@ == @ && to_string(@) && [] | length(@)", d
	case "dataobj":
		d := run.Node{T: "json.Number", S: "1"}
		for i := 0; i < n; i++ {
			d = run.Node{T: "object", K: []string{"a"}, A: []run.Node{d}}
		}
		return "merge(@, @) == @ && a.a.a", d
	}
	panic("unknown depth kind " + kind)
}

var depthKinds = []string{"paren", "not", "neg", "list", "hash", "field", "index", "liststar", "flatten", "or", "pipe", "plus", "filter", "call", "let", "literal", "data", "dataobj"}

// C03 (c): nesting depth 10 ... 10^5 of every recursive construct returns normally.
func TestC03_Depth(t *testing.T) {
	c := collector("C03", "depth")
	depths := []int{10, 100, 1000, 10000}
	if thorough() {
		// run in sacrificial child processes: exhausting the goroutine stack
		// is a fatal error that would take the shard down
		depths = append(depths, 100000, 1000000)
	}
	shard, _ := strconv.Atoi(getenv("VERIF_SHARD", "0"))
	nshards, _ := strconv.Atoi(getenv("VERIF_NSHARDS", "1"))
	i := 0
	for _, kind := range depthKinds {
		for _, n := range depths {
			i++
			if i%nshards != shard {
				continue
			}
			if n > 10000 && (kind == "data" || kind == "dataobj") {
				continue // the harness itself builds and snapshots data recursively
			}
			text, data := deepExpr(kind, n)
			c.Case()
			call := run.Call{API: "search", Expr: "depth:" + kind + ":" + strconv.Itoa(n)}
			run.WatchAs(c, "depth", "custom:c03-depth", nil, call)
			var msg string
			if n > 10000 {
				msg = depthInChild(kind, n)
			} else {
				msg = noPanic(text, data.Build)
			}
			if n > 10000 && strings.HasPrefix(msg, "fatal error: stack overflow") && kfOpen("stack-overflow-deep-nesting") {
				// the recorded finding: recursion depth is unbounded, and a
				// nesting of 10^5 and more can exhaust the goroutine stack.
				// Excluded (and counted); any other failure at these depths,
				// and any failure at depth <= 10^4, is still reported.
				c.Exclude("stack-overflow-deep-nesting")
				continue
			}
			if msg != "" {
				c.Fail(t, run.Replay{Check: "depth", Kind: "custom:c03-depth", Calls: []run.Call{call}, Message: fmt.Sprintf("%s nested %d deep: %s", kind, n, msg)}, kind)
				return
			}
			c.NonTrivial(kind+strconv.Itoa(n), func() any { return map[string]any{"construct": kind, "depth": n, "expression_bytes": len(text)} })
		}
	}
}

// TestC03_DepthChild is run as a subprocess: depths beyond 10^5 can exhaust
// the goroutine stack, which is a fatal error that cannot be recovered.
func TestC03_DepthChild(t *testing.T) {
	spec := os.Getenv("VERIF_DEPTH_CASE")
	if spec == "" {
		t.Skip("child only")
	}
	parts := strings.Split(spec, ":")
	n, _ := strconv.Atoi(parts[1])
	text, data := deepExpr(parts[0], n)
	if msg := noPanic(text, data.Build); msg != "" {
		fmt.Println("DEPTH-PANIC " + truncate(msg, 300))
		t.Fail()
		return
	}
	fmt.Println("DEPTH-OK")
}

// depthInChild runs one depth case in a sacrificial child process.
func depthInChild(kind string, n int) string {
	cmd := exec.Command(os.Args[0], "-test.run", "^TestC03_DepthChild$", "-test.count=1", "-test.timeout=300s")
	cmd.Env = append(os.Environ(), "VERIF_DEPTH_CASE="+kind+":"+strconv.Itoa(n))
	out, err := cmd.CombinedOutput()
	s := string(out)
	switch {
	case strings.Contains(s, "DEPTH-OK"):
		return ""
	case strings.Contains(s, "DEPTH-PANIC"):
		return s[strings.Index(s, "DEPTH-PANIC"):]
	case strings.Contains(s, "stack overflow") || strings.Contains(s, "goroutine stack exceeds"):
		return "fatal error: stack overflow (the process is killed; recover cannot catch it)"
	case strings.Contains(s, "out of memory") || strings.Contains(s, "cannot allocate"):
		return "" // memory exhaustion of the harness machine is not judged here
	}
	return fmt.Sprintf("child process died: %v: %s", err, truncate(s, 400))
}

func init() {
	customReplays["custom:c03-depth"] = func(r run.Replay) string {
		if len(r.Calls) == 0 {
			return "malformed replay"
		}
		parts := strings.Split(r.Calls[0].Expr, ":")
		if len(parts) != 3 {
			return "malformed replay"
		}
		n, _ := strconv.Atoi(parts[2])
		return depthInChild(parts[1], n)
	}
	_ = model.Syntax
}
