package props

import (
	"fmt"
	"strconv"
	"strings"
	"testing"

	"github.com/woodsbury/jmespath"
	"pgregory.net/rapid"

	"verif/harness/ast"
	"verif/harness/gen"
	"verif/harness/jv"
	"verif/harness/model"
	"verif/harness/run"
)

// withSpareCapacity gives some arrays of the description unused capacity
// (Build fills it with sentinels).
func withSpareCapacity(t *rapid.T, n run.Node) run.Node {
	switch n.T {
	case "array":
		n.Cap = rapid.IntRange(0, 3).Draw(t, "cap")
		a := make([]run.Node, len(n.A))
		for i, e := range n.A {
			a[i] = withSpareCapacity(t, e)
		}
		n.A = a
	case "object":
		a := make([]run.Node, len(n.A))
		for i, e := range n.A {
			a[i] = withSpareCapacity(t, e)
		}
		n.A = a
	}
	return n
}

// withWrapper puts the root, or one value inside it, behind a pointer or a
// named map / slice type: to the library that is an opaque value, and it must
// be the same opaque value to a compiled and to a fresh expression.
func withWrapper(t *rapid.T, n run.Node) run.Node {
	if (n.T == "array" || n.T == "object") && len(n.A) > 0 && rapid.IntRange(0, 2).Draw(t, "wrapdeeper") > 0 {
		i := rapid.IntRange(0, len(n.A)-1).Draw(t, "wrapat")
		a := append([]run.Node{}, n.A...)
		a[i] = withWrapper(t, a[i])
		n.A = a
		return n
	}
	return run.Node{T: gen.Pick(t, "wrapkind", run.WrapKinds), A: []run.Node{n}}
}

type c06Result struct {
	raw  any
	snap string
	step int
}

type c06Op struct {
	Op   string    `json:"op"`
	Doc  int       `json:"doc,omitempty"`
	Expr string    `json:"expr,omitempty"`
	Node *run.Node `json:"node,omitempty"`
}

// c06Run executes a history against the library and checks the invariants
// after every step. Returns "" if all hold.
func c06Run(text string, docs []run.Node, ops []c06Op, loose, multi bool) string {
	E, co := run.Compile(text)
	if co.Panic != "" {
		return "Compile panicked: " + co.Panic
	}
	if E == nil {
		// MustCompile must panic exactly when Compile fails
		if p, _ := run.MustCompilePanics(text); !p {
			return "Compile fails but MustCompile does not panic"
		}
		return ""
	}
	if p, _ := run.MustCompilePanics(text); p {
		return "Compile succeeds but MustCompile panics"
	}
	dump0 := run.DumpExpression(E)
	built := make([]any, len(docs))
	snaps := make([]string, len(docs))
	for i, d := range docs {
		built[i] = d.Build()
		snaps[i] = run.SnapshotFull(built[i])
	}
	var results []c06Result
	check := func(step int) string {
		if d := run.DumpExpression(E); d != dump0 {
			return fmt.Sprintf("step %d: the compiled expression was modified", step)
		}
		for i := range built {
			if s := run.SnapshotFull(built[i]); s != snaps[i] {
				return fmt.Sprintf("step %d: document %d was modified (including unused slice capacity):\n before %s\n after  %s", step, i, snaps[i], s)
			}
		}
		for _, r := range results {
			if s := run.SnapshotFull(r.raw); s != r.snap {
				return fmt.Sprintf("step %d: the result returned at step %d changed:\n before %s\n after  %s", step, r.step, r.snap, s)
			}
		}
		return ""
	}
	for step, op := range ops {
		switch op.Op {
		case "search":
			o := run.ExprSearch(E, built[op.Doc])
			if o.Panic != "" {
				return fmt.Sprintf("step %d: Expression.Search panicked: %s", step, o.Panic)
			}
			// a fresh one-shot Search of the same text on an equal, separately built document
			f := run.Search(text, docs[op.Doc].Build())
			if msg := run.SameOutcomeMF(o, f, loose, multi); msg != "" {
				return fmt.Sprintf("step %d: compiled vs fresh one-shot Search on document %d: %s", step, op.Doc, msg)
			}
			if !o.Failed {
				results = append(results, c06Result{raw: o.Raw, snap: run.SnapshotFull(o.Raw), step: step})
			}
		case "oneshot":
			// an unrelated one-shot search in between (must not disturb E)
			_ = run.Search(op.Expr, built[op.Doc])
		case "recompile":
			E2, _ := run.Compile(text)
			if E2 == nil {
				return fmt.Sprintf("step %d: recompiling the same text failed", step)
			}
			if run.DumpExpression(E2) != dump0 {
				return fmt.Sprintf("step %d: recompiling the same text gives a different expression", step)
			}
			o := run.ExprSearch(E2, built[op.Doc])
			f := run.ExprSearch(E, built[op.Doc])
			if msg := run.SameOutcomeMF(o, f, loose, multi); msg != "" {
				return fmt.Sprintf("step %d: fresh compilation vs used expression: %s", step, msg)
			}
		case "update":
			// the caller changes its own document in place between two calls:
			// one root member gets a new value (the member count stays). The
			// next Search must see the document as it is now.
			m, ok := built[op.Doc].(map[string]any)
			if !ok || op.Node == nil {
				break
			}
			if _, present := m[op.Expr]; !present {
				break
			}
			m[op.Expr] = op.Node.Build()
			nd := docs[op.Doc]
			nd.A = append([]run.Node{}, nd.A...)
			for i, k := range nd.K {
				if k == op.Expr {
					nd.A[i] = *op.Node
				}
			}
			docs = append([]run.Node{}, docs...)
			docs[op.Doc] = nd
			snaps[op.Doc] = run.SnapshotFull(built[op.Doc])
			// earlier results may be (parts of) that very document: they change
			// with it, by the caller's own doing
			for i := range results {
				results[i].snap = run.SnapshotFull(results[i].raw)
			}
		case "mustcompile":
			p, _ := run.MustCompilePanics(op.Expr)
			_, co := run.Compile(op.Expr)
			if p != (co.Failed || co.Panic != "") {
				return fmt.Sprintf("step %d: MustCompile(%q) panics = %v but Compile fails = %v", step, op.Expr, p, co.Failed)
			}
		}
		if msg := check(step); msg != "" {
			return msg
		}
	}
	return ""
}

// rooted rewrites an expression that is relative to the current node (@, a
// field chain, a literal) into one relative to the root node, or returns nil.
func rooted(e ast.Expr) ast.Expr {
	c, ok := e.(*ast.Chain)
	if !ok {
		return nil
	}
	switch c.Head.Kind {
	case ast.HLiteral:
		return c
	case ast.HCurrent:
		return &ast.Chain{Head: ast.Head{Kind: ast.HRoot}, Steps: c.Steps}
	case ast.HField:
		return &ast.Chain{Head: ast.Head{Kind: ast.HRoot}, Steps: append([]ast.Step{{Kind: ast.SField, Name: c.Head.Name}}, c.Steps...)}
	}
	return nil
}

// C06: a compiled expression is a pure, reusable function of the data.
func TestC06_Reuse(t *testing.T) {
	c := collector("C06", "reuse")
	check(t, func(t *rapid.T) {
		ndocs := rapid.IntRange(1, 4).Draw(t, "ndocs")
		vals := make([]jv.Val, ndocs)
		docs := make([]run.Node, ndocs)
		wrapped := false
		for i := range docs {
			vals[i] = gen.Doc(t, gen.DocCfg{MaxDepth: 3, MaxFan: 4})
			docs[i] = withSpareCapacity(t, run.FromVal(vals[i]))
			if rapid.IntRange(0, 11).Draw(t, "wrapped") == 0 {
				docs[i] = withWrapper(t, docs[i])
				wrapped = true
			}
		}
		cfg := gen.ExprCfg{MaxDepth: 2, MaxSteps: 4, Funcs: true, Let: true, Arith: true, Compare: true}
		g := &gen.G{T: t, Root: vals[0], Cfg: cfg}
		var e ast.Expr
		switch rapid.IntRange(0, 6).Draw(t, "exprkind") {
		case 6:
			// new arrays built from existing ones: concatenation by flattening a
			// multi-select, zip, merge of objects holding them, slices of
			// windows -- an append onto the first operand writes into memory
			// the evaluator does not own when that operand has room behind it
			src := []ast.Expr{ast.F("a"), ast.F("b"), ast.Cur(), ast.Lit(jv.VArr([]jv.Val{jv.VInt(1), jv.VInt(2), jv.VInt(3)})), ast.F("a").With(ast.Step{Kind: ast.SSlice, Stop: ast.I64(1)}),
				ast.F("a").With(ast.Step{Kind: ast.SSlice, Start: ast.I64(0), Stop: ast.I64(2)}), ast.Call("to_array", ast.A(ast.F("a"))), ast.Lit(jv.VArr([]jv.Val{jv.VStr("x")}))}
			x, y := gen.Pick(t, "cat1", src), gen.Pick(t, "cat2", src)
			ml := &ast.Chain{Head: ast.Head{Kind: ast.HMultiList, Items: []ast.Expr{x, y}}}
			switch rapid.IntRange(0, 4).Draw(t, "catform") {
			case 0, 1:
				e = ml.With(ast.Step{Kind: ast.SFlatten})
			case 2:
				e = (&ast.Chain{Head: ast.Head{Kind: ast.HMultiList, Items: []ast.Expr{x, y, ast.Lit(jv.VArr([]jv.Val{jv.VStr("third")}))}}}).With(ast.Step{Kind: ast.SFlatten})
			case 3:
				e = ast.Call("zip", ast.A(x), ast.A(y))
			default:
				e = ast.Bin("|", ml, &ast.Chain{Head: ast.Head{Kind: ast.HImplicit}, Steps: []ast.Step{{Kind: ast.SFlatten}}})
			}
		case 0: // aliasing-prone built-ins applied to document arrays and literals
			arg := gen.Pick(t, "arg", []ast.Expr{ast.Cur(), ast.F("a"), ast.F("b"), ast.Lit(jv.VArr([]jv.Val{jv.VInt(3), jv.VInt(1), jv.VInt(2)})), ast.F("a").With(ast.Step{Kind: ast.SSlice, Start: ast.I64(0)}), ast.F("a").With(ast.Step{Kind: ast.SListStar})})
			fn := gen.Pick(t, "fn", []string{"sort", "reverse", "to_array", "not_null", "max", "min", "values", "keys", "sum"})
			// value-preserving wrappers that may hand the caller's own array through
			for k := rapid.IntRange(0, 2).Draw(t, "nwrap"); k > 0; k-- {
				switch rapid.IntRange(0, 15).Draw(t, "wrapper") {
				case 8, 9: // selectors continuing a slice of a string: not a projection, the value passes through
					if r := rooted(arg); r != nil {
						sl := gen.Pick(t, "strslice", []ast.Step{{Kind: ast.SSlice, Stop: ast.I64(1)}, {Kind: ast.SSlice, Start: ast.I64(0), Stop: ast.I64(2)}, {Kind: ast.SSlice, Stride: ast.I64(2)}, {Kind: ast.SSlice, Stride: ast.I64(-1)}})
						pass := gen.Pick(t, "passfn", []string{"to_array", "not_null"})
						arg = ast.RawS("ab").With(sl, ast.Step{Kind: ast.SCall, Name: pass, Args: []ast.Arg{ast.A(r)}})
					}
				case 10:
					arg = (&ast.Chain{Head: ast.Head{Kind: ast.HMultiHash, Keys: []string{"k"}, Items: []ast.Expr{arg}}}).With(ast.Step{Kind: ast.SField, Name: "k"})
				case 11:
					arg = (&ast.Chain{Head: ast.Head{Kind: ast.HMultiList, Items: []ast.Expr{ast.Lit(jv.VInt(0)), arg}}}).With(ast.Step{Kind: ast.SIndex, Index: 1})
				case 12:
					arg = ast.Call("values", ast.A(&ast.Chain{Head: ast.Head{Kind: ast.HMultiHash, Keys: []string{"k"}, Items: []ast.Expr{arg}}})).With(ast.Step{Kind: ast.SIndex, Index: 0})
				case 13:
					arg = ast.Call("map", ast.Ref(ast.Cur()), ast.A(&ast.Chain{Head: ast.Head{Kind: ast.HMultiList, Items: []ast.Expr{arg}}})).With(ast.Step{Kind: ast.SIndex, Index: 0})
				case 14:
					arg = ast.Call("reverse", ast.A(&ast.Chain{Head: ast.Head{Kind: ast.HMultiList, Items: []ast.Expr{arg, ast.Lit(jv.VNull())}}})).With(ast.Step{Kind: ast.SIndex, Index: -1})
				case 15:
					arg = ast.Call("merge", ast.A(&ast.Chain{Head: ast.Head{Kind: ast.HMultiHash, Keys: []string{"k"}, Items: []ast.Expr{arg}}}), ast.A(ast.Lit(jv.VObj(nil)))).With(ast.Step{Kind: ast.SField, Name: "k"})
				case 0:
					arg = ast.Call("to_array", ast.A(arg))
				case 1:
					arg = ast.Call("not_null", ast.A(arg))
				case 2:
					arg = ast.Call("not_null", ast.A(ast.F("missing")), ast.A(arg))
				case 3:
					arg = ast.Paren(arg)
				case 4:
					arg = ast.Paren(ast.Bin("|", arg, ast.Cur()))
				case 5:
					arg = ast.Paren(ast.Bin("||", arg, ast.Lit(jv.VArr(nil))))
				case 6:
					arg = ast.Paren(&ast.Let{Names: []string{"w"}, Vals: []ast.Expr{arg}, Body: ast.Var("w")})
				default:
					arg = ast.Paren(ast.Bin("&&", ast.Lit(jv.VBool(true)), arg))
				}
			}
			e = ast.Call(fn, ast.A(arg))
		case 1:
			arg := gen.Pick(t, "arg", []ast.Expr{ast.Cur(), ast.F("a"), ast.F("b")})
			fn := gen.Pick(t, "fn", []string{"sort_by", "group_by", "max_by", "min_by"})
			e = ast.Call(fn, ast.A(arg), ast.Ref(gen.Pick(t, "key", []ast.Expr{ast.F("a"), ast.F("k"), ast.Call("to_string", ast.A(ast.Cur()))})))
		case 2:
			e = ast.Call("merge", ast.A(g.Chain(vals[0], 1)), ast.A(ast.Lit(jv.VObj([]jv.Member{{K: "z", V: jv.VArr([]jv.Val{jv.VInt(1)})}}))))
		default:
			e = g.Expr(vals[0], 0)
		}
		escaped := rapid.IntRange(0, 4).Draw(t, "escaped-literals") == 0
		if escaped {
			// the expression carries literals of every syntax that need decoding
			// (escapes); other texts with such literals are compiled and searched
			// in between (whatever the decoder keeps must not leak from one
			// compiled expression into another)
			s1 := "e'" + gen.Str(t)
			e = &ast.Chain{Head: ast.Head{Kind: ast.HMultiList, Items: []ast.Expr{e, ast.RawS(s1), ast.Lit(jv.VStr("q\"" + s1)), ast.RawS("back\\slash'" + s1)}}}
		}
		text := ast.Render(e)
		if model.Static(e).RefAtValue && kfOpen("expref-at-value-position") {
			c.Case()
			c.Exclude("expref-at-value-position")
			return
		}
		nops := rapid.IntRange(3, 12).Draw(t, "nops")
		ops := make([]c06Op, nops)
		updated := false
		distinct := map[int]bool{}
		for i := range ops {
			d := rapid.IntRange(0, ndocs-1).Draw(t, "doc")
			switch rapid.IntRange(0, 10).Draw(t, "op") {
			case 10:
				ops[i] = c06Op{Op: "search", Doc: d}
				if vals[d].K == jv.Obj && len(vals[d].O) > 0 {
					nv := run.FromVal(gen.Value(t, gen.DocCfg{MaxDepth: 2, MaxFan: 3}, 1))
					ops[i] = c06Op{Op: "update", Doc: d, Expr: vals[d].O[rapid.IntRange(0, len(vals[d].O)-1).Draw(t, "updkey")].K, Node: &nv}
					updated = true
				}
			case 0:
				ops[i] = c06Op{Op: "oneshot", Doc: d, Expr: ast.Render(g.Expr(vals[d], 1))}
				if escaped && rapid.Bool().Draw(t, "other-escaped") {
					s2 := "o'" + gen.Str(t)
					other := &ast.Chain{Head: ast.Head{Kind: ast.HMultiList, Items: []ast.Expr{ast.RawS(s2), ast.Lit(jv.VStr("p\"" + s2)), ast.RawS("slash\\back'" + s2)}}}
					ops[i].Expr = ast.Render(other)
					if rapid.Bool().Draw(t, "other-compiled") {
						ops[i].Op = "mustcompile"
					}
				}
			case 1:
				ops[i] = c06Op{Op: "recompile", Doc: d}
			case 2:
				bad := gen.Pick(t, "mc", []string{"a.b", "a[", "abs()", "foo(a)", "`x`", "a | b", "", "[::0]", "sort_by(a, b)"})
				if rapid.IntRange(0, 2).Draw(t, "mcmutated") > 0 {
					// any text: the expression itself, damaged in one of the ways
					// the grammar check (C04) uses
					bad, _ = mutate(t, text)
				}
				ops[i] = c06Op{Op: "mustcompile", Expr: bad}
			default:
				ops[i] = c06Op{Op: "search", Doc: d}
				distinct[d] = true
			}
		}
		c.Case()
		loose := enumeratesMembers(e)
		if loose && updated {
			// whether an order-sensitive use of an enumerated array makes the
			// outcome vary is decided by the model on the documents as drawn;
			// it is not re-decided after an update, so such expressions see none
			for i := range ops {
				if ops[i].Op == "update" {
					ops[i] = c06Op{Op: "search", Doc: ops[i].Doc}
				}
			}
			updated = false
		}
		multi := false
		for _, v := range vals {
			r, _ := model.Eval(e, v)
			// order-sensitive uses of enumerated arrays legitimately vary between calls
			if loose && r.Undet != "" {
				c.Skip(r.Undet)
				return
			}
			// several faults at once: which one is reported may vary
			if r.Undet != "" || r.Err.Count() > 1 {
				multi = true
			}
		}
		if wrapped {
			multi = true // the reference interpreter does not see the wrapper: faults are not tracked
		}
		if updated {
			multi = true // the documents change under way: which of several faults comes first is not tracked
		}
		run.Watch(c, "reuse", run.Call{API: "expr-search", Expr: text, Doc: &docs[0]})
		if msg := c06Run(text, docs, ops, loose, multi); msg != "" {
			c.Fail(t, run.Replay{Check: "reuse", Kind: "custom:c06", Calls: []run.Call{{API: "compile", Expr: text}}, Loose: loose, Message: msg,
				Extra: mustJSON(map[string]any{"docs": docs, "ops": ops, "multi_fault": multi})}, ast.Shape(e))
			return
		}
		c.Label("ok")
		if len(distinct) >= 2 {
			c.NonTrivial(text+"\x00"+fmt.Sprint(ops)+"\x00"+docs[0].Text(), func() any {
				return map[string]any{"expr": text, "docs": len(docs), "ops": ops, "doc0": truncate(docs[0].Text(), 200)}
			})
		}
	})
}

func init() {
	customReplays["custom:c06"] = func(r run.Replay) string {
		var ex struct {
			Docs  []run.Node `json:"docs"`
			Ops   []c06Op    `json:"ops"`
			Multi bool       `json:"multi_fault"`
		}
		if err := jsonUnmarshal(r.Extra, &ex); err != nil || len(r.Calls) == 0 {
			return "malformed replay"
		}
		return c06Run(r.Calls[0].Expr, ex.Docs, ex.Ops, r.Loose, ex.Multi)
	}
	_ = jmespath.ErrSyntax
}

// longText builds an expression of about n bytes of the given kind.
func longText(kind string, n int) string {
	switch kind {
	case "blank-padding":
		return "a" + strings.Repeat(" ", n)
	case "leading-blanks":
		return strings.Repeat("\n", n) + "a"
	case "raw-string":
		return "'" + strings.Repeat("x", n) + "'"
	case "identifier":
		return strings.Repeat("k", n)
	case "quoted-identifier":
		return "\"" + strings.Repeat("é", n/2) + "\""
	case "json-string":
		return "`\"" + strings.Repeat("s", n) + "\"`"
	case "json-array":
		return "`[" + strings.Repeat("1,", n/2) + "1]`"
	case "invalid-padded":
		return "a[" + strings.Repeat(" ", n)
	case "invalid-tail":
		return "a" + strings.Repeat(" ", n) + ")"
	}
	panic("unknown long kind " + kind)
}

var longKinds = []string{"blank-padding", "leading-blanks", "raw-string", "identifier", "quoted-identifier", "json-string", "json-array", "invalid-padded", "invalid-tail"}

// C06 (long texts): for expressions of 64 KiB, 1 MiB and 16 MiB (+1) the three
// entry points still agree: MustCompile panics exactly when Compile fails, and
// the compiled expression returns what one-shot Search returns. (A length cap
// added to one entry point and not to another shows here; C04 checks that the
// valid ones are accepted at all.)
func TestC06_Long(t *testing.T) {
	c := collector("C06", "long")
	shard, _ := strconv.Atoi(getenv("VERIF_SHARD", "0"))
	nshards, _ := strconv.Atoi(getenv("VERIF_NSHARDS", "1"))
	i := 0
	for _, kind := range longKinds {
		for _, n := range []int{1<<16 + 1, 1<<20 + 1, 1<<24 + 1} {
			i++
			if i%nshards != shard {
				continue
			}
			c.Case()
			call := run.Call{API: "compile", Expr: "long:" + kind + ":" + strconv.Itoa(n)}
			run.WatchAs(c, "long", "custom:c06-long", nil, call)
			if msg := c06LongVerdict(kind, n); msg != "" {
				c.Fail(t, run.Replay{Check: "long", Kind: "custom:c06-long", Calls: []run.Call{call}, Message: fmt.Sprintf("%s of %d bytes: %s", kind, n, msg)}, kind)
				return
			}
			c.NonTrivial(kind+strconv.Itoa(n), func() any { return map[string]any{"kind": kind, "bytes": n} })
		}
	}
}

func c06LongVerdict(kind string, n int) string {
	text := longText(kind, n)
	doc := map[string]any{"a": "v", strings.Repeat("k", n): "long key"}
	ce, co := run.Compile(text)
	if co.Panic != "" {
		return "Compile panicked: " + truncate(co.Panic, 200)
	}
	mp, me := run.MustCompilePanics(text)
	if mp != co.Failed {
		return fmt.Sprintf("MustCompile panics = %v but Compile fails = %v (%s)", mp, co.Failed, truncate(co.String(), 200))
	}
	valid := !strings.HasPrefix(kind, "invalid")
	if valid == co.Failed {
		return fmt.Sprintf("the text is valid = %v but Compile fails = %v (%s)", valid, co.Failed, truncate(co.String(), 200))
	}
	one := run.Search(text, doc)
	if one.Panic != "" {
		return "Search panicked: " + truncate(one.Panic, 200)
	}
	if one.Failed != co.Failed {
		return fmt.Sprintf("one-shot Search fails = %v but Compile fails = %v", one.Failed, co.Failed)
	}
	if ce != nil {
		for _, e := range []*jmespath.Expression{ce, me} {
			if e == nil {
				continue
			}
			o := run.ExprSearch(e, doc)
			if msg := run.SameOutcome(one, o, false); msg != "" {
				return "compiled vs one-shot: " + truncate(msg, 300)
			}
		}
	}
	return ""
}

func init() {
	customReplays["custom:c06-long"] = func(r run.Replay) string {
		if len(r.Calls) == 0 {
			return "malformed replay"
		}
		parts := strings.Split(r.Calls[0].Expr, ":")
		if len(parts) != 3 {
			return "malformed replay"
		}
		n, _ := strconv.Atoi(parts[2])
		return c06LongVerdict(parts[1], n)
	}
}
