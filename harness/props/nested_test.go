package props

import (
	"strings"
	"testing"

	"pgregory.net/rapid"

	"verif/harness/ast"
	"verif/harness/gen"
	"verif/harness/jv"
	"verif/harness/model"
	"verif/harness/run"
)

// Nested projections: a projection P over records three levels deep
// (a -> b -> c -> d), itself possibly made of earlier, completed projections,
// followed by a selector e that contains further projections in closed
// positions (inside a multi-select, a hash value, a filter condition, a
// function argument). Whatever an implementation keeps per search for one
// projection (result buffers, fused nodes) is in use by the outer projection
// while the inner ones run.

// nestedP[level]: projections whose elements are records of that level
// (1: elements of a, with member b; 2: elements of b, with member c;
// 3: elements of c, with member d). Appending ".e" to each applies e to every
// element of the final projection (the earlier ones are closed by a flatten,
// a pipe or parentheses).
var nestedP = map[int][]string{
	1: {"a[]", "a[*]", "a[1:]", "a[?b]", "a[::-1]", "(a)[]", "a | [*]", "[a, a][]", "a[?b[].c[]]", "a[?length(b[]) > `1`]", "[a[0], a[1], a[-1]][*]", "a[?b][]"},
	2: {"a[].b[]", "a[*].b[]", "a[].b[][]", "a[?b].b[]", "(a[].b)[]", "a[].b[] | [*]", "a[*].b[] | [?c]", "a[].b[] | [?c]", "a[0].b[*]", "a[-1].b[]", "a[].b[] | [1:]", "[a[].b[], a[*].b[]][]", "a[].b[] | [?c[].d]"},
	3: {"a[].b[].c[]", "a[*].b[].c[]", "a[].b[] | [*].c[]", "(a[].b[].c)[]", "a[].b[].c[] | [?d]", "a[].b[].c[] | [*]", "a[].b[].c[] | [::2]", "a[0].b[0].c[*]", "a[].b[*].c[][]"},
}

// nestedE[level]: selectors for a record of that level; each keeps its inner
// projections closed, so that it stays inside the right-hand side of P.
var nestedE = map[int][]string{
	1: {"[b[].c[].d]", "{k: b[].c[].d}", "[b[].c[].d, b[*].c]", "{k: b[].c[], j: b[*].c[*].d}", "b[?c[].d]", "[b[].[c[].d]]", "[length(b[])]", "[b[].c[].d | [0]]", "[b[].c[].[d, d]]",
		"[map(&c[].d, b)]", "[b[*].c[].d[]]", "{k: b[].{j: c[].d}}", "[b[].c[?d].d]", "[b[].c[].d[]]", "b[?c[?d]]", "[b[].c | [][].d]", "[sort(b[].c[].d[])]", "[b[0].c[].d, b[-1].c[*].d]", "[[b[].c[]][]]", "{k: [b[]][]}", "[not_null(b[].c[].d)]"},
	2: {"[c[].d]", "{k: c[].d}", "[c[].d, c[*].d]", "c[?[@][].d]", "[c[].[d]]", "{k: c[], j: c[*].d}", "[c[].d[]]", "[length(c[])]", "[c[].d | [0]]", "[c[?d].d]", "[c[].d[] | [-1]]", "c[?d[]]", "[map(&d, c[])]", "[[c[]][]]", "{k: c[].{j: d[]}}", "[c[1:].d, c[].d]", "[reverse(c[].d)]", "[c[].d][0]"},
	3: {"[d[]]", "{k: d[]}", "[d, d[]]", "[d[*]]", "d[?@]", "[[d][]]", "[to_array(d)[]]", "{k: [d][], j: d[][]}", "[d[] | [0]]", "[d[1:], d[]]", "[length(to_array(d)[])]"},
}

func nestedDoc(t *rapid.T) jv.Val {
	odd := func(label string) (jv.Val, bool) {
		switch rapid.IntRange(0, 11).Draw(t, label) {
		case 0:
			return jv.VNull(), true
		case 1:
			return gen.Pick(t, label+"-v", []jv.Val{jv.VStr("s"), jv.VInt(7), jv.VObj(nil), jv.VArr(nil), jv.VBool(false)}), true
		}
		return jv.Val{}, false
	}
	id := 0
	dVal := func() jv.Val {
		switch rapid.IntRange(0, 5).Draw(t, "dkind") {
		case 0:
			return jv.VNull()
		case 1:
			k := rapid.IntRange(0, 3).Draw(t, "dlen")
			a := make([]jv.Val, k)
			for i := range a {
				id++
				a[i] = jv.VInt(int64(id))
			}
			return jv.VArr(a)
		case 2:
			return jv.VArr([]jv.Val{jv.VArr([]jv.Val{jv.VInt(int64(id))}), jv.VNull(), jv.VInt(0)})
		}
		id++
		return jv.VInt(int64(id))
	}
	level := func(label, member string, max int, inner func() jv.Val) func() jv.Val {
		return func() jv.Val {
			if v, ok := odd(label + "-odd"); ok {
				return v
			}
			n := rapid.IntRange(0, max).Draw(t, label)
			a := make([]jv.Val, n)
			for i := range a {
				if v, ok := odd(label + "-elem-odd"); ok {
					a[i] = v
					continue
				}
				ms := []jv.Member{{K: member, V: inner()}}
				if rapid.IntRange(0, 7).Draw(t, label+"-missing") == 0 {
					ms = []jv.Member{{K: "other", V: jv.VInt(1)}}
				}
				a[i] = jv.VObj(ms)
			}
			return jv.VArr(a)
		}
	}
	cs := level("c", "d", 3, dVal)
	bs := level("b", "c", 3, cs)
	as := level("a", "b", 4, bs)
	return jv.VObj([]jv.Member{{K: "a", V: as()}})
}

func nestedCase(t *rapid.T, c *run.Collector, check string) {
	doc := nestedDoc(t)
	lvl := rapid.IntRange(1, 3).Draw(t, "level")
	P := gen.Pick(t, "P", nestedP[lvl])
	e := gen.Pick(t, "e", nestedE[lvl])
	if rapid.IntRange(0, 3).Draw(t, "second") == 0 {
		// two selectors of the same record in one multi-select
		e2 := gen.Pick(t, "e2", nestedE[lvl])
		if strings.HasPrefix(e, "[") && strings.HasPrefix(e2, "[") && !strings.HasSuffix(e, "[0]") && !strings.HasSuffix(e2, "[0]") {
			e = "[" + e + ", " + e2 + "]"
		}
	}
	if av, _ := doc.Get("a"); av.K != jv.Arr && (P == "a[1:]" || P == "a[::-1]") {
		// a slice of a string is a string, not a projection
		P = "a[*]"
	}
	fused := P + "." + e
	texts := []string{fused, P + " | [*]." + e, "(" + P + ")[*]." + e}
	if rapid.IntRange(0, 3).Draw(t, "wrapped") == 0 {
		// the whole query once more as an item next to itself, or after an
		// earlier projection that has completed
		w := gen.Pick(t, "wrap", []string{"[{Q}, {Q}]", "[a[].b[].c[].d[], {Q}][1]", "{x: a[].b[], y: {Q}}.y", "let $x = a[].b[].c[] in {Q}", "[{Q}, a[].b[]][0]", "[{Q}][0]"})
		for i := range texts {
			texts[i] = strings.ReplaceAll(w, "{Q}", texts[i])
		}
		if strings.Count(w, "{Q}") == 2 {
			for i := range texts {
				texts[i] = "(" + texts[i] + ")[0]"
			}
		}
	}
	c.Case()
	pr := ast.Parse(texts[0])
	if pr.Verdict != ast.In {
		if pr.Verdict == ast.Out {
			t.Fatalf("HARNESS-BUG: nested query %q does not parse: %s", texts[0], pr.Reason)
		}
		c.Skip("reference-parser-undetermined")
		return
	}
	res, _ := model.Eval(pr.Expr, doc)
	node := run.FromVal(doc)
	calls := make([]run.Call, len(texts))
	for i, tx := range texts {
		calls[i] = run.Call{API: "search", Expr: tx, Doc: &node}
	}
	run.Watch(c, check, calls...)
	outs := make([]run.Outcome, len(texts))
	for i, tx := range texts {
		outs[i] = run.Search(tx, node.Build())
	}
	loose := res.Undet != "" || res.Err.Count() > 1
	for i := 1; i < len(outs); i++ {
		if msg := run.SameOutcomeMF(outs[0], outs[i], false, loose); msg != "" {
			c.Fail(t, run.Replay{Check: check, Kind: "same", Calls: []run.Call{calls[0], calls[i]}, Message: "fused projection vs the same projection closed first: " + msg}, "nested-same")
			return
		}
	}
	if res.Undet != "" {
		c.Skip(res.Undet)
		return
	}
	if modelDiff(t, c, check+"-model", pr.Expr, texts[0], doc, res) {
		return
	}
	c.Label("level-" + string(rune('0'+lvl)))
	if res.IsValue() && res.V.K == jv.Arr && len(res.V.A) >= 2 {
		c.NonTrivial(texts[0]+"\x00"+doc.JSON(), func() any {
			return map[string]any{"exprs": texts, "doc": truncate(doc.JSON(), 300), "outcome": describe(res)}
		})
	}
}

// C17: x<proj>.e equals x<proj> | [*].e and (x<proj>)[*].e when e itself
// contains projections.
func TestC17_Nested(t *testing.T) {
	c := collector("C17", "nested")
	check(t, func(t *rapid.T) { nestedCase(t, c, "nested") })
}

// C01: the same queries against the reference interpreter.
func TestC01_Nested(t *testing.T) {
	c := collector("C01", "nested")
	check(t, func(t *rapid.T) { nestedCase(t, c, "nested") })
}
