package props

import (
	"encoding/json"
	"os"
	"path/filepath"
	"sort"
	"strings"
	"testing"

	"verif/harness/ast"
	"verif/harness/jv"
	"verif/harness/model"
)

type corpusCase struct {
	File   string
	Given  jv.Val
	Expr   string
	Result *jv.Val
	Error  string
}

func repoDir() string {
	if d := os.Getenv("VERIF_REPO"); d != "" {
		return d
	}
	return "/repo"
}

func loadCorpus(tb testing.TB) []corpusCase {
	var out []corpusCase
	for _, dir := range []string{"compliance", "extra"} {
		files, _ := filepath.Glob(filepath.Join(repoDir(), "testdata", dir, "*.json"))
		sort.Strings(files)
		for _, f := range files {
			raw, err := os.ReadFile(f)
			if err != nil {
				tb.Fatalf("read %s: %v", f, err)
			}
			var groups []struct {
				Given json.RawMessage `json:"given"`
				Cases []struct {
					Expression string           `json:"expression"`
					Result     *json.RawMessage `json:"result"`
					Error      string           `json:"error"`
				} `json:"cases"`
			}
			if err := json.Unmarshal(raw, &groups); err != nil {
				tb.Fatalf("decode %s: %v", f, err)
			}
			for _, g := range groups {
				given, err := jv.ParseJSON(string(g.Given))
				if err != nil {
					tb.Fatalf("given in %s: %v", f, err)
				}
				for _, c := range g.Cases {
					cc := corpusCase{File: filepath.Base(f), Given: given, Expr: c.Expression, Error: c.Error}
					if c.Error == "" {
						txt := "null"
						if c.Result != nil {
							txt = string(*c.Result)
						}
						v, err := jv.ParseJSON(txt)
						if err != nil {
							tb.Fatalf("result in %s: %v", f, err)
						}
						cc.Result = &v
					}
					out = append(out, cc)
				}
			}
		}
	}
	return out
}

// TestSelfCheckCorpus validates the reference parser and the model against the
// compliance corpus shipped with the repository: the model must agree with
// every expected value or error, or declare the case undetermined. A
// disagreement is a harness bug, never a violation.
func TestSelfCheckCorpus(t *testing.T) {
	cases := loadCorpus(t)
	if len(cases) < 900 {
		t.Fatalf("corpus too small: %d", len(cases))
	}
	undet := map[string]int{}
	agree := 0
	bad := 0
	for _, c := range cases {
		pr := ast.Parse(c.Expr)
		switch pr.Verdict {
		case ast.Undet:
			undet["parse:"+pr.Reason]++
			continue
		case ast.Out:
			if c.Error == "syntax" {
				agree++
				continue
			}
			bad++
			t.Errorf("%s: %q: reference parser says OUT (%s) but corpus expects %s", c.File, c.Expr, pr.Reason, expectStr(c))
			continue
		}
		if c.Error == "syntax" {
			// expression references at value positions are "syntax" for some
			// implementations and invalid-type by the specification text
			if model.Static(pr.Expr).RefAtValue {
				undet["ref-at-value"]++
				continue
			}
			bad++
			t.Errorf("%s: %q: reference parser says IN but corpus expects syntax error", c.File, c.Expr)
			continue
		}
		res, _ := model.Eval(pr.Expr, c.Given)
		if res.Undet != "" {
			undet[res.Undet]++
			continue
		}
		if c.Error != "" {
			want := model.CatFromNames([]string{c.Error})
			if res.Err&want == 0 {
				bad++
				t.Errorf("%s: %q: model says %v, corpus expects error %s", c.File, c.Expr, describe(res), c.Error)
				continue
			}
			agree++
			continue
		}
		if res.Err != 0 || !approxEqual(res.V, *c.Result) {
			bad++
			t.Errorf("%s: %q: model says %v, corpus expects %s", c.File, c.Expr, describe(res), c.Result.JSON())
			continue
		}
		agree++
	}
	keys := make([]string, 0, len(undet))
	n := 0
	for k, v := range undet {
		keys = append(keys, k)
		n += v
	}
	sort.Strings(keys)
	var sb strings.Builder
	for _, k := range keys {
		sb.WriteString("\n    " + k + ": " + itoa(undet[k]))
	}
	t.Logf("corpus cases %d: agree %d, undetermined %d, disagree %d%s", len(cases), agree, n, bad, sb.String())
	if agree < len(cases)*80/100 {
		t.Errorf("model determines too little of the corpus: %d of %d", agree, len(cases))
	}
}

func itoa(i int) string { b, _ := json.Marshal(i); return string(b) }

func expectStr(c corpusCase) string {
	if c.Error != "" {
		return "error " + c.Error
	}
	return c.Result.JSON()
}

func describe(r model.Res) string {
	switch {
	case r.Undet != "":
		return "undetermined(" + r.Undet + ")"
	case r.Err != 0:
		return "error" + strings.Join(r.Err.Names(), "|")
	}
	return r.V.JSON()
}

// approxEqual: corpus results were produced by binary-float implementations
// (2/3 = 0.6666666666666666); compare numbers to 15 significant digits.
func approxEqual(a, b jv.Val) bool {
	if a.K == jv.Num && b.K == jv.Num {
		if a.R.Cmp(b.R) == 0 {
			return true
		}
		fa, _ := a.R.Float64()
		fb, _ := b.R.Float64()
		d := fa - fb
		if d < 0 {
			d = -d
		}
		m := fa
		if m < 0 {
			m = -m
		}
		return d <= m*1e-14
	}
	if a.K != b.K {
		return false
	}
	switch a.K {
	case jv.Arr:
		if len(a.A) != len(b.A) {
			return false
		}
		if a.Unordered {
			return jv.Equal(a, b)
		}
		for i := range a.A {
			if !approxEqual(a.A[i], b.A[i]) {
				return false
			}
		}
		return true
	case jv.Obj:
		if len(a.O) != len(b.O) {
			return false
		}
		for i := range a.O {
			if a.O[i].K != b.O[i].K || !approxEqual(a.O[i].V, b.O[i].V) {
				return false
			}
		}
		return true
	}
	return jv.Equal(a, b)
}
