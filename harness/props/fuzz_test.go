package props

import (
	"strings"
	"testing"
	"unicode/utf8"

	"verif/harness/ast"
	"verif/harness/jv"
	"verif/harness/model"
	"verif/harness/run"
)

// Native coverage-guided fuzz targets (thorough tier). The semantic oracle is
// inside the target; a failing input is saved by the Go fuzzer under
// testdata/fuzz/<target>/ and becomes the replay file.

// dataFromSelector builds a small hostile document from a selector byte string
// (a minimal "arbitrary" layer).
func dataFromSelector(sel []byte) run.Node {
	pick := func(i int) run.Node {
		if len(sel) == 0 {
			return run.Node{T: "null"}
		}
		return hostileLeaves[int(sel[i%len(sel)])%len(hostileLeaves)]
	}
	d := c03FixedData
	extra := run.Node{T: "array", A: []run.Node{pick(0), pick(1), {T: "json.Number", S: "2"}, {T: "string", S: "aé"}}}
	d.K = append(append([]string{}, d.K...), "h", "k")
	d.A = append(append([]run.Node{}, d.A...), extra, pick(2))
	return d
}

// FuzzSearchBytes: C03 on arbitrary expression bytes and selector-built data.
func FuzzSearchBytes(f *testing.F) {
	for _, e := range loadCorpusExprs(f) {
		f.Add([]byte(e), []byte{0})
	}
	for _, h := range hostileFragments {
		f.Add([]byte("a"+h), []byte{1, 2, 3})
		f.Add([]byte(h+"a"), []byte{7})
	}
	f.Add([]byte("a[::9223372036854775807]"), []byte{3})
	f.Add([]byte("find_first(s, 'a', `4`, `2`)"), []byte{4})
	f.Add([]byte("split(s, '', `9223372036854775807`)"), []byte{5})
	f.Fuzz(func(t *testing.T, expr []byte, sel []byte) {
		text := string(expr)
		if len(text) > 4096 || strings.Contains(text, "pad_") {
			return
		}
		d := dataFromSelector(sel)
		if msg := noPanic(text, d.Build); msg != "" {
			t.Fatalf("C03: %s\n expr %q", msg, text)
		}
	})
}

// FuzzCompileRecognizer: C04, arbitrary strings classified by the reference recognizer.
func FuzzCompileRecognizer(f *testing.F) {
	for _, e := range loadCorpusExprs(f) {
		f.Add(e)
	}
	for _, h := range hostileFragments {
		f.Add("a" + h)
	}
	doc, _ := jv.ParseJSON(`{"a":[{"b":1,"c":"x"},null,[2]],"b":{"c":3},"s":"aéb","foo":{"bar":[1,2,3]}}`)
	node := run.FromVal(doc)
	f.Fuzz(func(t *testing.T, text string) {
		if len(text) > 2048 || !utf8.ValidString(text) && len(text) > 512 {
			return
		}
		pr := ast.Parse(text)
		_, co := run.Compile(text)
		if co.Panic != "" {
			t.Fatalf("C03: Compile panicked on %q: %s", text, co.Panic)
		}
		switch pr.Verdict {
		case ast.Out:
			if !co.Failed {
				t.Fatalf("C04: %q is not in the grammar (%s) but Compile accepts it", text, pr.Reason)
			}
			if co.Cats != model.Syntax {
				if staticPreemptShape(text) && co.Cats.Count() == 1 && co.Cats&(model.Arity|model.UnknownFn|model.InvType|model.InvValue) != 0 && kfOpen("static-error-preempts-syntax-error") {
					return
				}
				t.Fatalf("C04: %q is not in the grammar (%s): expected a syntax error, got %s", text, pr.Reason, co)
			}
		case ast.In:
			st := model.Static(pr.Expr)
			if st.Undet != "" || (st.RefAtValue && kfOpen("expref-at-value-position")) {
				return
			}
			res, _ := model.Eval(pr.Expr, doc)
			if strings.Contains(text, "pad_") {
				return
			}
			if res.Undet != "" {
				if co.Failed && co.Cats&model.Syntax != 0 && !st.ZeroStep {
					t.Fatalf("C04: %q is in the grammar but rejected: %s", text, co)
				}
				return
			}
			out := run.Search(text, node.Build())
			if msg := run.CheckAgainst(res, out); msg != "" {
				t.Fatalf("C04/C01: %q: %s", text, msg)
			}
		}
	})
}

// FuzzLiteralRoundTrip: C16, every string through the three literal syntaxes.
func FuzzLiteralRoundTrip(f *testing.F) {
	for _, s := range []string{"", "a", "'", "\\", "\\'", "`", "\"", "a\\", "\\\\'", "é", "\U0001F600", "�", "\x00", "\n", "\\u0041", "a`b\\`c", "\\`"} {
		f.Add(s)
	}
	f.Fuzz(func(t *testing.T, s string) {
		if !utf8.ValidString(s) || len(s) > 1024 {
			return
		}
		want := model.Res{V: jv.VStr(s)}
		for _, text := range []string{ast.RawString(s, ast.Canonical), ast.JSONLiteral(jv.VStr(s), ast.Canonical)} {
			if msg := run.CheckAgainst(want, run.Search(text, nil)); msg != "" {
				t.Fatalf("C16: %q written as %q: %s", s, text, msg)
			}
		}
		q := ast.QuoteIdent(s, ast.Canonical)
		data := map[string]any{s: "hit", s + "x": "miss"}
		if msg := run.CheckAgainst(model.Res{V: jv.VStr("hit")}, run.Search(q, data)); msg != "" {
			t.Fatalf("C16: key %q written as %q: %s", s, q, msg)
		}
	})
}
