package gen

import (
	"fmt"
	"math/big"

	"pgregory.net/rapid"

	"verif/harness/jv"
)

// respell rewrites v without changing its value: numbers get another
// spelling, (object members are unordered by construction).
func Respell(t *rapid.T, v jv.Val) jv.Val {
	switch v.K {
	case jv.Num:
		if !v.R.IsInt() || v.R.Num().BitLen() > 60 {
			return v
		}
		i := v.R.Num().Int64()
		forms := []string{fmt.Sprintf("%d", i), fmt.Sprintf("%d.0", i), fmt.Sprintf("%de0", i), fmt.Sprintf("%d.000", i), fmt.Sprintf("%dE+0", i)}
		if i != 0 {
			forms = append(forms, fmt.Sprintf("%d0e-1", i), fmt.Sprintf("%d00E-2", i))
		}
		if i == 0 {
			forms = append(forms, "-0", "0.0", "0e5", "-0.0")
		}
		return jv.VNumText(Pick(t, "respell", forms))
	case jv.Arr:
		a := make([]jv.Val, len(v.A))
		for i, e := range v.A {
			a[i] = Respell(t, e)
		}
		return jv.VArr(a)
	case jv.Obj:
		ms := make([]jv.Member, len(v.O))
		for i, m := range v.O {
			ms[i] = jv.Member{K: m.K, V: Respell(t, m.V)}
		}
		return jv.VObj(ms)
	}
	return v
}

// nearMiss changes exactly one thing.
func NearMiss(t *rapid.T, v jv.Val) jv.Val {
	switch v.K {
	case jv.Null:
		return Pick(t, "nm", []jv.Val{jv.VBool(false), jv.VInt(0), jv.VStr(""), jv.VStr("null"), jv.VArr(nil), jv.VObj(nil)})
	case jv.Bool:
		return Pick(t, "nm", []jv.Val{jv.VBool(!v.B), jv.VInt(0), jv.VInt(1), jv.VStr(fmt.Sprint(v.B)), jv.VNull()})
	case jv.Num:
		alts := []jv.Val{jv.VStr(v.JSON()), jv.VRat(new(big.Rat).Add(v.R, big.NewRat(1, 1))), jv.VRat(new(big.Rat).Neg(v.R)), jv.VRat(new(big.Rat).Add(v.R, big.NewRat(1, 1000000))), jv.VBool(v.R.Sign() != 0), jv.VNull(), jv.VArr([]jv.Val{v})}
		// a difference in the 20th significant digit, and the same digits at a
		// magnitude outside the binary64 range: still different numbers
		if d, ok := jv.SigDigits(v.R); ok && d <= 12 && v.R.Sign() != 0 {
			eps := new(big.Rat).SetFrac(big.NewInt(1), new(big.Int).Exp(big.NewInt(10), big.NewInt(20), nil))
			alts = append(alts, jv.VRat(new(big.Rat).Add(v.R, new(big.Rat).Mul(v.R, eps))))
			tiny := new(big.Rat).SetFrac(big.NewInt(1), new(big.Int).Exp(big.NewInt(10), big.NewInt(400), nil))
			alts = append(alts, jv.VRat(new(big.Rat).Mul(v.R, tiny)), jv.VRat(new(big.Rat).Quo(v.R, tiny)))
		}
		return Pick(t, "nm", alts)
	case jv.Str:
		alts := []jv.Val{jv.VStr(v.S + " "), jv.VStr(v.S + "́"), jv.VArr([]jv.Val{v}), jv.VNull()}
		if r, ok := jv.ParseNum(v.S); ok && jv.IsJSONNumber(v.S) {
			alts = append(alts, jv.Val{K: jv.Num, R: r, T: v.S})
		}
		if v.S == "" {
			alts = append(alts, jv.VArr(nil), jv.VObj(nil), jv.VBool(false))
		}
		return Pick(t, "nm", alts)
	case jv.Arr:
		if len(v.A) == 0 {
			return Pick(t, "nm", []jv.Val{jv.VObj(nil), jv.VNull(), jv.VStr(""), jv.VArr([]jv.Val{jv.VNull()}), jv.VBool(false)})
		}
		i := rapid.IntRange(0, len(v.A)-1).Draw(t, "at")
		a := append([]jv.Val{}, v.A...)
		switch rapid.IntRange(0, 3).Draw(t, "arrnm") {
		case 0:
			a[i] = NearMiss(t, a[i])
		case 1:
			a = append(a[:i], a[i+1:]...)
		case 2:
			a = append(a, jv.VNull())
		default:
			if len(a) >= 2 {
				a[0], a[len(a)-1] = a[len(a)-1], a[0]
			} else {
				a = append(a, a[0])
			}
		}
		return jv.VArr(a)
	case jv.Obj:
		if len(v.O) == 0 {
			return Pick(t, "nm", []jv.Val{jv.VArr(nil), jv.VNull(), jv.VObj([]jv.Member{{K: "a", V: jv.VNull()}})})
		}
		i := rapid.IntRange(0, len(v.O)-1).Draw(t, "at")
		ms := append([]jv.Member{}, v.O...)
		switch rapid.IntRange(0, 3).Draw(t, "objnm") {
		case 0:
			ms[i] = jv.Member{K: ms[i].K, V: NearMiss(t, ms[i].V)}
		case 1:
			ms = append(ms[:i], ms[i+1:]...)
		case 2:
			ms = append(ms, jv.Member{K: ms[i].K + "x", V: jv.VNull()})
		default:
			ms[i] = jv.Member{K: ms[i].K + "'", V: ms[i].V}
		}
		return jv.VObj(ms)
	}
	return v
}
