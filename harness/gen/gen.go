// Package gen holds the rapid generators: documents, expressions (directed by
// the data so that selectors hit), numbers, strings.
package gen

import (
	"strconv"
	"strings"

	"pgregory.net/rapid"

	"verif/harness/ast"
	"verif/harness/jv"
	"verif/harness/model"
)

// Chooser adapts rapid to ast.Chooser.
type Chooser struct{ T *rapid.T }

func (c Chooser) Choose(label string, n int) int {
	if n <= 1 {
		return 0
	}
	return rapid.IntRange(0, n-1).Draw(c.T, label)
}

// Keys is the small alphabet shared by documents and expressions.
// (names that look like keywords, literals, function names or numbers in
// another letter case or position are ordinary identifiers)
var Keys = []string{"a", "b", "c", "d", "k", "v", "é", " ", "let", "", "In", "IN", "iN", "Let", "LET", "lEt", "Null", "TRUE", "False", "null", "true", "abs", "length", "sort_by", "not_null", "_", "_1", "a1", "A", "e1", "E5", "x_", "__", "a-b", "1a", "a.b", "a b", "$", "@", "*", "&", "ı", "K", "a/b", "😀", "p/😀\\q", "\"", "\\", "\n", "\u007f", "\u00e9\u0301"}

var plainKeys = []string{"a", "b", "c", "d", "k", "v"}

// Strs is the string palette: mixed encoded widths, repeats, empties.
var Strs = []string{"", "a", "b", "ab", "ba", "abc", "aa", "abab", "é", "aé", "éa", "aéb", "日本", "a日b", "😀", "a😀b", "é", "�", " a ", "A", "Ab", "10", "2", "x,y,z", "a-b-a", "éé😀éé", "NaN", "Infinity", "-inf", "1e400", "1_0", "1e1_0", "0e0_0", "0x10", "null", "true", "🇩🇪", "a🇫🇷🇬b", "👨\u200d👩\u200d👧", "1\ufe0f\u20e3", "👍🏻", "각", "ⓐbc", "Ⓐ", "vol. ⅳ", "Ⅻ", "ａＺ", "Жж", "Ωωά", "𐐨𐐀", "ÿŸ", "ǎǍ", "\u0080", "a\u0080b", "\u07ff\u0800", "\uffff", "\U00010000", "\U0010ffff", "\x7f"}

// NumTexts is the number palette (JSON spellings).
var NumTexts = []string{"0", "1", "-1", "2", "3", "4", "5", "10", "1.5", "-2.5", "0.1", "0.2", "0.3", "1.0", "1e0", "10e-1", "0.0", "-0", "100", "1e2", "7", "-7", "9007199254740993", "1e21", "123456789012345678901234567890", "0.5", "2.0", "25E-1", "1E+1", "15E-1", "1E0", "5E-1",
	// distinct numbers that a binary64 shortcut would merge: neighbours above
	// 2^53, a difference in the 20th digit, magnitudes beyond 1e308 and below
	// 1e-308 (all exact in decimal128)
	"9007199254740992", "9007199254740994", "0.10000000000000000001", "0.10000000000000000002", "1e400", "2e400", "-1e400", "1e-400", "2e-400", "1e-320", "1.0001e-320",
	// long texts outside the decimal128 range (not numbers to the library: whatever it does with them, it must do every time)
	"12345678901234567890e6200", "1.0000000000000000000e+7000", "-99999999999999999999e6144", "0.00000000000000000001e-6200"}

// CloseNums: groups of distinct numbers whose members a binary64 conversion
// maps to the same value, in descending order within each group.
var CloseNums = [][]string{
	{"9007199254740994", "9007199254740993", "9007199254740992"},
	{"0.10000000000000000003", "0.10000000000000000002", "0.10000000000000000001", "0.1"},
	{"3e400", "2e400", "1e400", "1e350"},
	{"3e-350", "2e-400", "1e-400", "0"},
	{"-1e350", "-1e400", "-2e400"},
	{"1.0002e-320", "1.0001e-320", "1e-320"},
	{"18446744073709551617", "18446744073709551616", "18446744073709551615"},
}

func Pick[T any](t *rapid.T, label string, xs []T) T {
	return xs[rapid.IntRange(0, len(xs)-1).Draw(t, label)]
}

func Chance(t *rapid.T, label string, num, den int) bool {
	return rapid.IntRange(1, den).Draw(t, label) <= num
}

// Key draws a member name.
func Key(t *rapid.T) string {
	if Chance(t, "plainkey", 5, 6) {
		return Pick(t, "key", plainKeys)
	}
	return Pick(t, "key", Keys)
}

// Str draws a string: mostly from the palette, sometimes composed.
func Str(t *rapid.T) string {
	switch rapid.IntRange(0, 9).Draw(t, "strkind") {
	case 0:
		if Chance(t, "longstr", 1, 12) {
			// long strings: a short unit repeated up to a length near a
			// typical buffer size, with a different tail
			unit := Pick(t, "unit", []string{"a", "ab", "é", "日", "😀", "a é", "\u0080", "x,"})
			n := Pick(t, "longlen", []int{31, 33, 63, 65, 127, 129, 255, 257, 1023, 1025, 4095, 4097, 8191, 8193})
			return strings.Repeat(unit, n/len([]rune(unit))) + Pick(t, "tail", []string{"", "z", "é", "日"})
		}
		return Pick(t, "s1", Strs) + Pick(t, "s2", Strs)
	case 1:
		n := rapid.IntRange(0, 6).Draw(t, "slen")
		rs := make([]rune, n)
		for i := range rs {
			rs[i] = Pick(t, "r", []rune{'a', 'b', 'c', 'é', 'ß', '日', '😀', ' ', 'A', '0', '́', '"', '\'', '\\', '`', 0x7f, 0x80, 0x7ff, 0x800, 0xd7ff, 0xe000, 0xffff, 0x10000, 0x10ffff})
		}
		return string(rs)
	}
	return Pick(t, "str", Strs)
}

// Num draws a number value (with spelling).
func Num(t *rapid.T) jv.Val {
	if Chance(t, "smallint", 1, 2) {
		return jv.VInt(int64(rapid.IntRange(-3, 12).Draw(t, "int")))
	}
	return jv.VNumText(Pick(t, "num", NumTexts))
}

// Scalar draws a non-container value.
func Scalar(t *rapid.T) jv.Val {
	switch rapid.IntRange(0, 7).Draw(t, "scalar") {
	case 0:
		return jv.VNull()
	case 1:
		return jv.VBool(rapid.Bool().Draw(t, "b"))
	case 2, 3, 4:
		return Num(t)
	default:
		return jv.VStr(Str(t))
	}
}

// DocCfg bounds document generation.
type DocCfg struct {
	MaxDepth int
	MaxFan   int
}

var QuickDoc = DocCfg{MaxDepth: 4, MaxFan: 4}
var ThoroughDoc = DocCfg{MaxDepth: 5, MaxFan: 6}

// Value draws an arbitrary JSON value.
func Value(t *rapid.T, cfg DocCfg, depth int) jv.Val {
	if depth >= cfg.MaxDepth || Chance(t, "leaf", 1+depth, 4+depth) {
		return Scalar(t)
	}
	if rapid.Bool().Draw(t, "isarr") {
		return Array(t, cfg, depth)
	}
	return Object(t, cfg, depth)
}

// Array draws an array; with some probability a homogeneous "array of
// records with shared keys" or an array of arrays.
func Array(t *rapid.T, cfg DocCfg, depth int) jv.Val {
	n := rapid.IntRange(0, cfg.MaxFan).Draw(t, "alen")
	if Chance(t, "longarray", 1, 40) {
		// long arrays of scalars (and a few records): implementations switch
		// algorithms and buffer strategies at lengths such as 12, 20, 32, 64, 128
		n = Pick(t, "longlen", []int{13, 21, 33, 63, 64, 65, 100, 129, 257})
		a := make([]jv.Val, n)
		for i := range a {
			switch {
			case Chance(t, "longrec", 1, 8):
				a[i] = jv.VObj([]jv.Member{{K: Key(t), V: jv.VInt(int64(i))}})
			case Chance(t, "longnull", 1, 10):
				a[i] = jv.VNull()
			default:
				a[i] = jv.VInt(int64(rapid.IntRange(0, 9).Draw(t, "longval")))
			}
		}
		return jv.VArr(a)
	}
	a := make([]jv.Val, n)
	switch rapid.IntRange(0, 5).Draw(t, "ashape") {
	case 0, 1: // records sharing keys
		keys := []string{Key(t), Key(t), Key(t)}
		for i := range a {
			if Chance(t, "odd", 1, 6) {
				a[i] = Scalar(t)
				if Chance(t, "oddnull", 1, 2) {
					a[i] = jv.VNull()
				}
				continue
			}
			var ms []jv.Member
			for _, k := range keys {
				if Chance(t, "has", 3, 4) {
					ms = append(ms, jv.Member{K: k, V: Value(t, cfg, depth+2)})
				}
			}
			a[i] = jv.VObj(ms)
		}
	case 2: // arrays of arrays
		for i := range a {
			if Chance(t, "odd", 1, 6) {
				a[i] = Scalar(t)
			} else {
				a[i] = Array(t, cfg, depth+1)
			}
		}
	case 3: // homogeneous scalars
		if rapid.Bool().Draw(t, "nums") {
			for i := range a {
				a[i] = Num(t)
			}
		} else {
			for i := range a {
				a[i] = jv.VStr(Str(t))
			}
		}
	default:
		for i := range a {
			a[i] = Value(t, cfg, depth+1)
		}
	}
	return jv.VArr(a)
}

func Object(t *rapid.T, cfg DocCfg, depth int) jv.Val {
	n := rapid.IntRange(0, cfg.MaxFan).Draw(t, "olen")
	ms := make([]jv.Member, 0, n)
	for i := 0; i < n; i++ {
		ms = append(ms, jv.Member{K: Key(t), V: Value(t, cfg, depth+1)})
	}
	return jv.VObj(ms)
}

// Doc draws a document: usually an object at the top.
func Doc(t *rapid.T, cfg DocCfg) jv.Val {
	switch rapid.IntRange(0, 9).Draw(t, "doctop") {
	case 0:
		return Scalar(t)
	case 1, 2:
		return Array(t, cfg, 0)
	}
	// object with a few guaranteed members
	n := rapid.IntRange(1, cfg.MaxFan+1).Draw(t, "olen")
	ms := make([]jv.Member, 0, n)
	for i := 0; i < n; i++ {
		ms = append(ms, jv.Member{K: Key(t), V: Value(t, cfg, 1)})
	}
	return jv.VObj(ms)
}

// Int64s is the hostile integer palette around a length n.
func HostileInt(t *rapid.T, n int) int64 {
	N := int64(n)
	pal := []int64{0, 1, -1, 2, -2, N - 1, N, N + 1, -N, -N - 1, -N + 1, 1 << 31, -(1 << 31), 1<<31 + 1, 1 << 32, 1<<62 + 1, 1<<63 - 1, -(1 << 63), -(1 << 63) + 1, 1<<63 - 2,
		// limits of the narrower integer kinds (an implementation may store small integers compactly)
		127, 128, 129, -128, -129, 255, 256, 257, 256 + N, 512, -256, 32767, 32768, -32768, -32769, 65535, 65536, 65536 + N, 1<<31 - 1, 1<<32 - 1, 1<<32 + N}
	switch rapid.IntRange(0, 3).Draw(t, "intkind") {
	case 0:
		return pal[rapid.IntRange(0, len(pal)-1).Draw(t, "hostile")]
	default:
		return int64(rapid.IntRange(-n-3, n+3).Draw(t, "small"))
	}
}

// ---------------------------------------------------------------------------
// Expressions

// ExprCfg bounds and selects the constructs used.
type ExprCfg struct {
	MaxDepth   int  // nesting of sub-expressions
	MaxSteps   int  // chain length
	Funcs      bool // allow function calls
	Let        bool
	Arith      bool
	Compare    bool
	HostileInt bool // indices / slice bounds from the hostile palette
	NoRoot     bool // never use $ (for expressions that are re-rooted)
	NoFreeVar  bool // never reference an unbound variable
}

var CoreCfg = ExprCfg{MaxDepth: 3, MaxSteps: 5, Compare: true, Let: true}

// G generates expressions directed by a document.
type G struct {
	T    *rapid.T
	Root jv.Val
	Cfg  ExprCfg
	vars []boundVar
}

type boundVar struct {
	name string
	val  jv.Val
}

// Expr draws an expression meant to be evaluated with current node cur.
func (g *G) Expr(cur jv.Val, depth int) ast.Expr {
	t := g.T
	if depth >= g.Cfg.MaxDepth {
		return g.Chain(cur, depth)
	}
	k := rapid.IntRange(0, 19).Draw(t, "exprkind")
	switch {
	case k < 10:
		return g.Chain(cur, depth)
	case k == 10:
		// pipe: right side directed by the left's value
		l := g.Expr(cur, depth+1)
		lv := g.valueOf(l, cur)
		if lc, ok := l.(*ast.Chain); ok && lv.K == jv.Arr && len(lv.A) > 0 && Chance(t, "filterfirst", 1, 3) {
			// ... in particular a bare filter whose condition also holds for
			// null elements (negations, inequalities), followed by the idiom
			open := false
			for _, st := range lc.Steps {
				if st.IsProjection() {
					open = true
				}
			}
			if !open {
				el := rep(lv.A)
				var cond ast.Expr
				switch rapid.IntRange(0, 3).Draw(t, "nullcond") {
				case 0:
					cond = &ast.Unary{Op: "!", X: g.Chain(el, depth+2)}
				case 1:
					cond = ast.Bin("!=", g.Chain(el, depth+2), ast.Lit(Scalar(t)))
				case 2:
					cond = ast.Bin("==", g.Chain(el, depth+2), ast.Lit(jv.VNull()))
				default:
					cond = g.cond(el, depth+2)
				}
				l = lc.With(ast.Step{Kind: ast.SFilter, Cond: cond})
				lv = g.valueOf(l, cur)
			}
		}
		if lv.K == jv.Arr && Chance(t, "pipeidiom", 1, 3) {
			// the idioms an implementation is tempted to fuse with what
			// precedes the pipe: first / last / rest / count / flatten of a
			// filtered, projected, sorted or sliced array
			idiom := Pick(t, "idiom", [][]ast.Step{{{Kind: ast.SIndex, Index: 0}}, {{Kind: ast.SIndex, Index: -1}}, {{Kind: ast.SIndex, Index: 1}}, {{Kind: ast.SSlice, Start: ast.I64(1)}}, {{Kind: ast.SSlice, Stop: ast.I64(1)}},
				{{Kind: ast.SFlatten}}, {{Kind: ast.SListStar}}, {{Kind: ast.SSlice, Stride: ast.I64(-1)}}, {{Kind: ast.SIndex, Index: 0}, {Kind: ast.SIndex, Index: 0}}})
			var r ast.Expr = &ast.Chain{Head: ast.Head{Kind: ast.HImplicit}, Steps: idiom}
			if Chance(t, "idiomfn", 1, 4) {
				r = ast.Call(Pick(t, "idiomcall", []string{"length", "reverse", "to_array", "not_null", "type"}), ast.A(ast.Cur()))
			}
			return ast.Bin("|", l, r)
		}
		return ast.Bin("|", l, g.Expr(lv, depth+1))
	case k == 11:
		return ast.Bin(Pick(t, "logop", []string{"||", "&&"}), g.Expr(cur, depth+1), g.Expr(cur, depth+1))
	case k == 12:
		return &ast.Unary{Op: "!", X: g.Expr(cur, depth+1)}
	case k == 13 && g.Cfg.Compare:
		op := Pick(t, "cmpop", []string{"==", "!=", "<", "<=", ">", ">="})
		if Chance(t, "cmpwindows", 1, 6) {
			l, r := g.windows(cur, depth+1)
			return ast.Bin(op, l, r)
		}
		l := g.Expr(cur, depth+1)
		var r ast.Expr
		if Chance(t, "cmplit", 1, 2) {
			lv := g.valueOf(l, cur)
			if Chance(t, "cmpsame", 1, 2) && lv.K != jv.Null {
				r = ast.Lit(stripMarks(lv))
			} else if Chance(t, "cmpnear", 1, 2) {
				// a value that differs from the left side in exactly one thing
				r = ast.Lit(NearMiss(t, Respell(t, stripMarks(lv))))
			} else {
				r = ast.Lit(Scalar(t))
			}
		} else {
			r = g.Expr(cur, depth+1)
		}
		return ast.Bin(op, l, r)
	case k == 14 && g.Cfg.Arith:
		op := Pick(t, "arop", []string{"+", "-", "*", "/", "//", "%"})
		return ast.Bin(op, g.numExpr(cur, depth+1), g.numExpr(cur, depth+1))
	case k == 15 && g.Cfg.Let:
		return g.LetExpr(cur, depth)
	case k == 16 && g.Cfg.Funcs:
		return g.CallChain(cur, depth)
	}
	return g.Chain(cur, depth)
}

// windows draws two views of one and the same value: a chain X and the same
// X seen through different windows (nothing, [*], [:], [:k], [k:], [a:b],
// to_array, not_null), each closed by parentheses. Implementations tend to
// return such views without copying, so that both operands of a comparison
// share memory.
func (g *G) windows(cur jv.Val, depth int) (ast.Expr, ast.Expr) {
	t := g.T
	x, ok := g.Chain(cur, depth).(*ast.Chain)
	if !ok {
		x = ast.Cur()
	}
	for _, st := range x.Steps {
		if st.IsProjection() {
			x = ast.Paren(x)
			break
		}
	}
	view := func(label string) ast.Expr {
		k := int64(rapid.IntRange(0, 3).Draw(t, label+"k"))
		switch rapid.IntRange(0, 8).Draw(t, label) {
		case 0:
			return x
		case 1:
			return ast.Paren(x.With(ast.Step{Kind: ast.SListStar}))
		case 2:
			return ast.Paren(x.With(ast.Step{Kind: ast.SSlice}))
		case 3:
			return ast.Paren(x.With(ast.Step{Kind: ast.SSlice, Stop: ast.I64(k)}))
		case 4:
			return ast.Paren(x.With(ast.Step{Kind: ast.SSlice, Start: ast.I64(k)}))
		case 5:
			return ast.Paren(x.With(ast.Step{Kind: ast.SSlice, Start: ast.I64(k / 2), Stop: ast.I64(k + 1)}))
		case 6:
			return ast.Call("to_array", ast.A(x))
		case 7:
			return ast.Call("not_null", ast.A(x))
		}
		return ast.Paren(x.With(ast.Step{Kind: ast.SSlice, Stop: ast.I64(-1)}))
	}
	return view("lwin"), view("rwin")
}

func stripMarks(v jv.Val) jv.Val {
	switch v.K {
	case jv.Str:
		v.T = ""
		return v
	case jv.Arr:
		a := make([]jv.Val, len(v.A))
		for i, e := range v.A {
			a[i] = stripMarks(e)
		}
		return jv.VArr(a)
	case jv.Obj:
		ms := make([]jv.Member, len(v.O))
		for i, m := range v.O {
			ms[i] = jv.Member{K: m.K, V: stripMarks(m.V)}
		}
		return jv.Val{K: jv.Obj, O: ms}
	}
	return v
}

func (g *G) numExpr(cur jv.Val, depth int) ast.Expr {
	if Chance(g.T, "numlit", 2, 3) {
		return ast.Lit(Num(g.T))
	}
	return g.Chain(cur, depth)
}

// valueOf evaluates e with the model to direct later choices (null when
// undetermined or failing).
func (g *G) valueOf(e ast.Expr, cur jv.Val) jv.Val {
	// variables are not visible to EvalAt: substitute nothing, accept null
	r := model.EvalAt(e, cur, g.Root)
	if !r.IsValue() {
		return jv.VNull()
	}
	return r.V
}

// LetExpr draws a let expression.
func (g *G) LetExpr(cur jv.Val, depth int) ast.Expr {
	t := g.T
	n := rapid.IntRange(1, 2).Draw(t, "nbind")
	l := &ast.Let{}
	saved := len(g.vars)
	var bound []boundVar
	var same []ast.Expr
	if g.Cfg.Funcs && Chance(t, "samefn-let", 1, 8) {
		n = rapid.IntRange(2, 3).Draw(t, "nbind-same")
		same = g.sameFn(cur, depth+1, n)
	}
	for i := 0; i < n; i++ {
		name := Pick(t, "var", []string{"x", "y", "z", "x"})
		if same != nil {
			name = []string{"x", "y", "z"}[i]
		}
		dup := false
		for _, b := range l.Names {
			if b == name {
				dup = true
			}
		}
		if dup {
			continue
		}
		v := g.Expr(cur, depth+1)
		if same != nil {
			v = same[i]
		}
		l.Names = append(l.Names, name)
		l.Vals = append(l.Vals, v)
		bound = append(bound, boundVar{name, g.valueOf(v, cur)})
	}
	g.vars = append(g.vars, bound...)
	l.Body = g.Expr(cur, depth+1)
	if same != nil && Chance(t, "samefn-body", 2, 3) {
		refs := make([]ast.Expr, len(l.Names))
		for i, name := range l.Names {
			refs[i] = ast.Var(name)
		}
		l.Body = &ast.Chain{Head: ast.Head{Kind: ast.HMultiList, Items: refs}}
	}
	g.vars = g.vars[:saved]
	return l
}

// Head draws a chain head for current value cur and returns the value the
// head denotes (representative, for directing the steps).
func (g *G) head(cur jv.Val, depth int) (ast.Head, jv.Val) {
	t := g.T
	k := rapid.IntRange(0, 29).Draw(t, "headkind")
	switch {
	case k < 14:
		name := g.fieldFor(cur)
		v, _ := cur.Get(name)
		return ast.Head{Kind: ast.HField, Name: name}, v
	case k < 18:
		return ast.Head{Kind: ast.HImplicit}, cur
	case k == 18:
		return ast.Head{Kind: ast.HCurrent}, cur
	case k == 19 && !g.Cfg.NoRoot:
		return ast.Head{Kind: ast.HRoot}, g.Root
	case k == 20:
		v := Value(t, DocCfg{MaxDepth: 2, MaxFan: 3}, 0)
		return ast.Head{Kind: ast.HLiteral, Lit: v}, v
	case k == 21:
		s := Str(t)
		return ast.Head{Kind: ast.HRaw, Raw: s}, jv.VStr(s)
	case k == 22 && depth < g.Cfg.MaxDepth:
		x := g.Expr(cur, depth+1)
		return ast.Head{Kind: ast.HParen, X: x}, g.valueOf(x, cur)
	case k == 23 && depth < g.Cfg.MaxDepth:
		items := g.items(cur, depth)
		h := ast.Head{Kind: ast.HMultiList, Items: items}
		return h, g.valueOf(&ast.Chain{Head: h}, cur)
	case k == 24 && depth < g.Cfg.MaxDepth:
		keys, items := g.hashItems(cur, depth)
		h := ast.Head{Kind: ast.HMultiHash, Keys: keys, Items: items}
		return h, g.valueOf(&ast.Chain{Head: h}, cur)
	case k == 25 && len(g.vars) > 0:
		v := g.vars[rapid.IntRange(0, len(g.vars)-1).Draw(t, "varref")]
		return ast.Head{Kind: ast.HVar, Name: v.name}, v.val
	case k == 26 && g.Cfg.Let && !g.Cfg.NoFreeVar && Chance(t, "freevar", 1, 8):
		return ast.Head{Kind: ast.HVar, Name: "q"}, jv.VNull()
	case k == 27 && g.Cfg.Funcs && depth < g.Cfg.MaxDepth:
		c := g.callHead(cur, depth)
		return c, g.valueOf(&ast.Chain{Head: c}, cur)
	}
	name := g.fieldFor(cur)
	v, _ := cur.Get(name)
	return ast.Head{Kind: ast.HField, Name: name}, v
}

func (g *G) fieldFor(v jv.Val) string {
	if v.K == jv.Obj && len(v.O) > 0 && Chance(g.T, "hit", 5, 6) {
		return v.O[rapid.IntRange(0, len(v.O)-1).Draw(g.T, "member")].K
	}
	return Key(g.T)
}

func (g *G) items(cur jv.Val, depth int) []ast.Expr {
	n := rapid.IntRange(1, 3).Draw(g.T, "nitems")
	if Chance(g.T, "wide", 1, 60) {
		// a wide multi-select: many simple items after a few generated ones
		few := g.items(cur, depth)
		w := Pick(g.T, "width", []int{9, 17, 33, 65, 129, 257})
		for i := len(few); i < w; i++ {
			few = append(few, Pick(g.T, "wideitem", []ast.Expr{ast.Cur(), ast.Lit(jv.VInt(int64(i))), ast.F("a"), ast.RawS("w")}))
		}
		return few
	}
	if g.Cfg.Funcs && Chance(g.T, "samefn-items", 1, 10) {
		return g.sameFn(cur, depth+1, n+1)
	}
	out := make([]ast.Expr, n)
	for i := range out {
		out[i] = g.Expr(cur, depth+1)
		if i == 0 && n == 1 && isBareStar(out[i]) {
			out[i] = ast.Cur()
		}
	}
	return out
}

func isBareStar(e ast.Expr) bool {
	c, ok := e.(*ast.Chain)
	return ok && c.Head.Kind == ast.HImplicit && len(c.Steps) == 1 && c.Steps[0].Kind == ast.SStar
}

func (g *G) hashItems(cur jv.Val, depth int) ([]string, []ast.Expr) {
	n := rapid.IntRange(1, 3).Draw(g.T, "nitems")
	var keys []string
	var items []ast.Expr
	seen := map[string]bool{}
	for i := 0; i < n; i++ {
		k := Key(g.T)
		if seen[k] {
			continue
		}
		seen[k] = true
		keys = append(keys, k)
		items = append(items, g.Expr(cur, depth+1))
	}
	if g.Cfg.Funcs && len(keys) >= 2 && Chance(g.T, "samefn-hash", 1, 6) {
		items = g.sameFn(cur, depth+1, len(keys))
	}
	return keys, items
}

// arrayPaths lists the field paths (at most three names) from v to arrays.
func arrayPaths(v jv.Val, prefix []string, paths *[][]string, vals *[]jv.Val) {
	if v.K == jv.Arr {
		*paths = append(*paths, append([]string{}, prefix...))
		*vals = append(*vals, v)
		return
	}
	if v.K != jv.Obj || len(prefix) >= 3 {
		return
	}
	for _, m := range v.O {
		arrayPaths(m.V, append(prefix, m.K), paths, vals)
	}
}

// sameFn draws n calls of one and the same function on views of one and the
// same value: the whole of it, prefixes, suffixes, copies. Sibling items of a
// multi-select or bindings of a let that repeat work on overlapping data are
// what an implementation is tempted to remember between them (and the order
// in which siblings are evaluated need not be the order in which they are
// written).
func (g *G) sameFn(cur jv.Val, depth, n int) []ast.Expr {
	t := g.T
	var x *ast.Chain
	var xv jv.Val
	var paths [][]string
	var vals []jv.Val
	arrayPaths(cur, nil, &paths, &vals)
	if len(paths) > 0 && Chance(t, "samefn-path", 4, 5) {
		i := rapid.IntRange(0, len(paths)-1).Draw(t, "samefn-which")
		x, xv = ast.Cur(), vals[i]
		for j, name := range paths[i] {
			if j == 0 {
				x = ast.F(name)
			} else {
				x = x.With(ast.Step{Kind: ast.SField, Name: name})
			}
		}
	} else {
		var ok bool
		if x, ok = g.Chain(cur, depth).(*ast.Chain); !ok {
			x = ast.Cur()
		}
		for _, st := range x.Steps {
			if st.IsProjection() {
				x = ast.Paren(x)
				break
			}
		}
		xv = g.valueOf(x, cur)
	}
	fns := []string{"length", "reverse", "to_array", "not_null", "type", "to_string"}
	if xv.K == jv.Arr && len(xv.A) > 0 {
		nums, strs := true, true
		for _, e := range xv.A {
			nums = nums && e.K == jv.Num
			strs = strs && e.K == jv.Str
		}
		if nums {
			fns = []string{"max", "min", "sum", "avg", "sort", "max", "min"}
		} else if strs {
			fns = []string{"max", "min", "sort", "length", "max", "min"}
		}
	}
	fn := Pick(t, "samefn", fns)
	L := len(xv.A)
	out := make([]ast.Expr, n)
	for i := range out {
		k := int64(rapid.IntRange(1, L+1).Draw(t, "samefn-k"))
		var v ast.Expr
		switch rapid.IntRange(0, 7).Draw(t, "samefn-view") {
		case 0, 1:
			v = x
		case 2, 3:
			v = ast.Paren(x.With(ast.Step{Kind: ast.SSlice, Stop: ast.I64(k)}))
		case 4:
			v = ast.Paren(x.With(ast.Step{Kind: ast.SSlice, Start: ast.I64(k - 1)}))
		case 5:
			v = ast.Paren(x.With(ast.Step{Kind: ast.SSlice, Stop: ast.I64(-1)}))
		case 6:
			v = ast.Paren(x.With(ast.Step{Kind: ast.SSlice, Start: ast.I64(0), Stop: ast.I64(k)}))
		default:
			v = ast.Paren(x.With(ast.Step{Kind: ast.SListStar}))
		}
		out[i] = ast.Call(fn, ast.A(v))
	}
	return out
}

// rep picks a representative element for directing steps inside a projection.
func rep(vs []jv.Val) jv.Val {
	for _, v := range vs {
		if v.K != jv.Null {
			return v
		}
	}
	return jv.VNull()
}

// Chain draws head + steps.
func (g *G) Chain(cur jv.Val, depth int) ast.Expr {
	t := g.T
	h, v := g.head(cur, depth)
	c := &ast.Chain{Head: h}
	n := rapid.IntRange(0, g.Cfg.MaxSteps).Draw(t, "nsteps")
	if h.Kind == ast.HImplicit && n == 0 {
		n = 1
	}
	for i := 0; i < n; i++ {
		first := i == 0 && h.Kind == ast.HImplicit
		s, nv := g.step(v, depth, first)
		c.Steps = append(c.Steps, s)
		v = nv
	}
	return c
}

func (g *G) intNear(n int) int64 {
	if g.Cfg.HostileInt {
		return HostileInt(g.T, n)
	}
	if Chance(g.T, "boundaryint", 1, 12) {
		return HostileInt(g.T, n)
	}
	return int64(rapid.IntRange(-n-2, n+2).Draw(g.T, "idx"))
}

func (g *G) optInt(n int) *int64 {
	if Chance(g.T, "absent", 1, 3) {
		return nil
	}
	return ast.I64(g.intNear(n))
}

// step draws one step applicable (usually) to v and returns the
// representative value after it.
func (g *G) step(v jv.Val, depth int, first bool) (ast.Step, jv.Val) {
	t := g.T
	applicable := Chance(t, "applicable", 4, 5)
	// candidate kinds
	type cand struct {
		k ast.StepKind
		w int
	}
	var cs []cand
	add := func(k ast.StepKind, w int) { cs = append(cs, cand{k, w}) }
	if !first {
		switch {
		case !applicable:
			add(ast.SField, 3)
			add(ast.SStar, 2)
			add(ast.SMultiList, 1)
			add(ast.SMultiHash, 1)
		case v.K == jv.Obj:
			add(ast.SField, 6)
			add(ast.SStar, 3)
			add(ast.SMultiList, 1)
			add(ast.SMultiHash, 1)
		default:
			add(ast.SField, 1)
			if depth < g.Cfg.MaxDepth {
				add(ast.SMultiList, 1)
				add(ast.SMultiHash, 1)
			}
		}
		if g.Cfg.Funcs && depth < g.Cfg.MaxDepth && v.K != jv.Null {
			add(ast.SCall, 1)
		}
	} else {
		if !applicable || v.K == jv.Obj {
			add(ast.SStar, 3)
		}
	}
	if !applicable || v.K == jv.Arr {
		add(ast.SIndex, 3)
		add(ast.SSlice, 2)
		add(ast.SListStar, 4)
		add(ast.SFlatten, 2)
		if depth < g.Cfg.MaxDepth {
			add(ast.SFilter, 2)
		}
	}
	if v.K == jv.Str && applicable {
		add(ast.SSlice, 3)
	}
	if len(cs) == 0 {
		if first {
			add(ast.SIndex, 1)
			add(ast.SListStar, 1)
			add(ast.SStar, 1)
			add(ast.SFlatten, 1)
		} else {
			add(ast.SField, 1)
		}
	}
	total := 0
	for _, c := range cs {
		total += c.w
	}
	r := rapid.IntRange(0, total-1).Draw(t, "stepkind")
	kind := cs[0].k
	for _, c := range cs {
		if r < c.w {
			kind = c.k
			break
		}
		r -= c.w
	}
	switch kind {
	case ast.SField:
		name := g.fieldFor(v)
		nv, _ := v.Get(name)
		return ast.Step{Kind: ast.SField, Name: name}, nv
	case ast.SStar:
		if v.K == jv.Obj {
			vals := make([]jv.Val, len(v.O))
			for i, m := range v.O {
				vals[i] = m.V
			}
			return ast.Step{Kind: ast.SStar}, rep(vals)
		}
		return ast.Step{Kind: ast.SStar}, jv.VNull()
	case ast.SMultiList:
		items := g.items(v, depth)
		if Chance(g.T, "dotstar", 1, 8) {
			// x.[*]: after a dot, [*] is a multi-select of the object wildcard
			items = []ast.Expr{&ast.Chain{Head: ast.Head{Kind: ast.HImplicit}, Steps: []ast.Step{{Kind: ast.SStar}}}}
		}
		s := ast.Step{Kind: ast.SMultiList, Items: items}
		return s, g.valueOf(&ast.Chain{Head: ast.Head{Kind: ast.HMultiList, Items: items}}, v)
	case ast.SMultiHash:
		keys, items := g.hashItems(v, depth)
		s := ast.Step{Kind: ast.SMultiHash, Keys: keys, Items: items}
		return s, g.valueOf(&ast.Chain{Head: ast.Head{Kind: ast.HMultiHash, Keys: keys, Items: items}}, v)
	case ast.SCall:
		h := g.callHead(v, depth)
		return ast.Step{Kind: ast.SCall, Name: h.Name, Args: h.Args}, g.valueOf(&ast.Chain{Head: h}, v)
	case ast.SIndex:
		n := len(v.A)
		i := g.intNear(n)
		var nv jv.Val
		if v.K == jv.Arr {
			j := i
			if j < 0 {
				j += int64(n)
			}
			if j >= 0 && j < int64(n) {
				nv = v.A[j]
			}
		}
		return ast.Step{Kind: ast.SIndex, Index: i}, nv
	case ast.SSlice:
		n := len(v.A)
		if v.K == jv.Str {
			n = len([]rune(v.S))
		}
		s := ast.Step{Kind: ast.SSlice, Start: g.optInt(n), Stop: g.optInt(n)}
		if Chance(t, "hasstep", 1, 2) {
			st := g.intNear(3)
			if st == 0 && !Chance(t, "zerostep", 1, 10) {
				st = 1
			}
			s.Stride = ast.I64(st)
		}
		if v.K == jv.Str {
			return s, v
		}
		return s, rep(v.A)
	case ast.SListStar:
		return ast.Step{Kind: ast.SListStar}, rep(v.A)
	case ast.SFlatten:
		var flat []jv.Val
		for _, e := range v.A {
			if e.K == jv.Arr {
				flat = append(flat, e.A...)
			} else {
				flat = append(flat, e)
			}
		}
		return ast.Step{Kind: ast.SFlatten}, rep(flat)
	case ast.SFilter:
		el := rep(v.A)
		return ast.Step{Kind: ast.SFilter, Cond: g.cond(el, depth+1)}, el
	}
	panic("gen: step")
}

// cond draws a filter condition for elements like el.
func (g *G) cond(el jv.Val, depth int) ast.Expr {
	t := g.T
	switch rapid.IntRange(0, 5).Draw(t, "condkind") {
	case 0:
		return g.Chain(el, depth)
	case 1:
		return &ast.Unary{Op: "!", X: g.Chain(el, depth)}
	case 2, 3:
		if Chance(t, "cmpwindows", 1, 8) {
			l, r := g.windows(el, depth)
			op := "=="
			if g.Cfg.Compare {
				op = Pick(t, "cmpop", []string{"==", "!=", "<=", "=="})
			}
			return ast.Bin(op, l, r)
		}
		l := g.Chain(el, depth)
		lv := g.valueOf(l, el)
		var r ast.Expr
		if lv.K != jv.Null && Chance(t, "cmpsame", 1, 2) {
			r = ast.Lit(stripMarks(lv))
		} else if Chance(t, "cmpnear", 1, 2) {
			r = ast.Lit(NearMiss(t, Respell(t, stripMarks(lv))))
		} else {
			r = ast.Lit(Scalar(t))
		}
		op := "=="
		if g.Cfg.Compare {
			op = Pick(t, "cmpop", []string{"==", "!=", "<", "<=", ">", ">=", "=="})
		}
		return ast.Bin(op, l, r)
	}
	return g.Expr(el, depth)
}

// CallChain draws a function call as a chain (possibly followed by steps).
func (g *G) CallChain(cur jv.Val, depth int) ast.Expr {
	h := g.callHead(cur, depth)
	return &ast.Chain{Head: h}
}

// callHead draws a well-formed call whose arguments mostly fit the signature.
func (g *G) callHead(cur jv.Val, depth int) ast.Head {
	t := g.T
	name := Pick(t, "fn", model.FuncNames)
	sig := model.Sigs[name]
	n := sig.Min
	max := sig.Max
	if max < 0 {
		max = sig.Min + 2
	}
	if max > n {
		n = rapid.IntRange(sig.Min, max).Draw(t, "argc")
	}
	if sig.Max < 0 && Chance(t, "manyargs", 1, 20) {
		n = Pick(t, "nargs", []int{5, 9, 17, 33})
	}
	args := make([]ast.Arg, n)
	for i := range args {
		if sig.IsRef(i) {
			args[i] = ast.Ref(g.Expr(jv.VNull(), depth+1))
			continue
		}
		if i == 1 && (name == "pad_left" || name == "pad_right") {
			// The width is always a literal here, and never one that denotes a
			// result of more than 70,000 characters: pad_left('x', w) with w
			// taken from the data can legitimately mean petabytes of padding
			// (C09 allows cost proportional to the result), which a check
			// about something else would then report as a hang. Huge widths
			// are exercised where they are judged: C09 (params) and C02.
			args[i] = ast.A(ast.Lit(jv.MustParseJSON(Pick(t, "padwidth", padWidths))))
			continue
		}
		args[i] = ast.A(g.argExpr(cur, depth+1))
	}
	return ast.Head{Kind: ast.HCall, Name: name, Args: args}
}

var padWidths = []string{"0", "1", "2", "3", "5", "8", "10", "1.0", "1e1", "20e-1", "40", "255", "256", "65535", "65536", "-1", "-0", "1.5", "-9223372036854775808", "9223372036854775808", "1e30", "1e400", "0.5", "\"3\"", "null", "true", "[2]"}

func (g *G) argExpr(cur jv.Val, depth int) ast.Expr {
	switch rapid.IntRange(0, 3).Draw(g.T, "argkind") {
	case 0:
		return ast.Lit(Value(g.T, DocCfg{MaxDepth: 2, MaxFan: 3}, 0))
	case 1:
		return ast.RawS(Str(g.T))
	}
	return g.Chain(cur, depth)
}

func Itoa(i int) string { return strconv.Itoa(i) }
