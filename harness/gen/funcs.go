package gen

import (
	"strconv"

	"pgregory.net/rapid"

	"verif/harness/ast"
	"verif/harness/jv"
	"verif/harness/model"
)

// ParamKinds: the "fitting" kind of each argument position of each built-in.
var ParamKinds = map[string][]string{
	"abs": {"num"}, "avg": {"arr-num"}, "ceil": {"num"}, "floor": {"num"},
	"contains": {"arr|str", "sub"}, "ends_with": {"str", "sub"}, "starts_with": {"str", "sub"},
	"find_first": {"str", "sub", "int", "int"}, "find_last": {"str", "sub", "int", "int"},
	"from_items": {"arr-pairs"}, "group_by": {"arr-rec", "&"}, "items": {"obj"}, "join": {"str", "arr-str"},
	"keys": {"obj"}, "values": {"obj"}, "length": {"sized"}, "lower": {"str"}, "upper": {"str"},
	"map": {"&", "arr"}, "max": {"arr-homog"}, "min": {"arr-homog"}, "sort": {"arr-homog"},
	"max_by": {"arr-rec", "&"}, "min_by": {"arr-rec", "&"}, "sort_by": {"arr-rec", "&"},
	"merge": {"obj", "obj", "obj"}, "not_null": {"any", "any", "any"},
	"pad_left": {"str", "count", "str1"}, "pad_right": {"str", "count", "str1"},
	"replace": {"str", "sub", "str", "count"}, "reverse": {"arr|str"}, "split": {"str", "sub", "count"},
	"sum": {"arr-num"}, "to_array": {"any"}, "to_number": {"numstr"}, "to_string": {"any"},
	"trim": {"padded", "str"}, "trim_left": {"padded", "str"}, "trim_right": {"padded", "str"},
	"type": {"any"}, "zip": {"arr", "arr", "arr"},
}

// countTexts: number spellings for count/width/offset positions — integral and
// non-integral, negative, 2^63-adjacent, written in several ways.
var countTexts = []string{"0", "1", "2", "3", "4", "5", "7", "10", "-1", "-2", "1.0", "2.0", "1e1", "1e0", "20e-1", "0.0", "-0", "1.5", "0.5", "2.000001", "-0.5", "1e-1", "9223372036854775807", "9223372036854775808", "-9223372036854775808", "1e19", "1e30", "4294967296", "2147483648", "100", "1000", "1000001", "1048577", "65537", "1E0", "2E+0", "10E-1", "15E-1", "25E-1", "1E1"}

func numStrs() []string {
	return []string{"1", "1.0", "-2.5", "1e3", "0", "-0", "1E2", "1e+2", "0.1", " 1", "1 ", "+1", "01", ".5", "1.", "1e", "abc", "", "null", "true", "NaN", "Infinity", "-Infinity", "inf", "0x10", "1_000", "1e1_0", "0e0_0", "1e-0_1", "1E+0_0", "1_0e1", "1e0_", "١", "1e400", "12345678901234567890123456789012345678901234567890", "--1", "1..2", "nan"}
}

// FnArgs draws the argument values for a call: argument i has the fitting
// kind with probability 3/4, else an arbitrary JSON value.
type FnGen struct {
	T *rapid.T
}

func (f FnGen) record(i int, keyKind int) jv.Val {
	t := f.T
	var key jv.Val
	switch keyKind {
	case 0: // numeric keys, few distinct, several spellings of equal values
		key = jv.VNumText(Pick(t, "nkey", []string{"1", "1.0", "1e0", "10e-1", "2", "2.0", "3", "-1", "0", "-0", "0.0", "1.5"}))
	case 1:
		key = jv.VStr(Pick(t, "skey", []string{"a", "b", "ab", "é", "z", "日", "😀", "", "A", "aa"}))
	case 2:
		key = Scalar(t)
	case 4: // numbers that only an exact comparison tells apart
		g := Pick(t, "closegroup", CloseNums)
		key = jv.VNumText(Pick(t, "closekey", g))
	default:
		key = jv.VNull()
	}
	ms := []jv.Member{{K: "k", V: key}, {K: "id", V: jv.VInt(int64(i))}}
	if Chance(t, "nokey", 1, 12) {
		ms = ms[1:]
	}
	// "t": a short unsorted array of the key's kind, for key expressions that
	// themselves sort or select (re-entrant use of sort_by, max_by, map ...)
	nt := rapid.IntRange(0, 3).Draw(t, "ntags")
	tags := make([]jv.Val, nt)
	for j := range tags {
		if keyKind == 0 || keyKind == 4 {
			tags[j] = jv.VInt(int64(rapid.IntRange(0, 9).Draw(t, "ntag")))
		} else {
			tags[j] = jv.VStr(Pick(t, "stag", []string{"z", "y", "b", "a", "n", "m", "é", "", "aa"}))
		}
	}
	ms = append(ms, jv.Member{K: "t", V: jv.VArr(tags)})
	return jv.VObj(ms)
}

// Subject strings for substring-style functions.
func (f FnGen) subject() string {
	return Pick(f.T, "subject", []string{"subject string", "aabaaabaaaab", "a,b,,c", "éaébéa", "日本日本語", "a😀b😀c", "🇩🇪🇫🇷x🇩", "e\u0301e\u0301", "abcabc", "", "a", " x y ", "aaa", "ab", "x,y,z", "AbC", "é", "--a--"})
}

func (f FnGen) substringOf(s string) string {
	rs := []rune(s)
	if len(rs) == 0 {
		return ""
	}
	i := rapid.IntRange(0, len(rs)-1).Draw(f.T, "subfrom")
	j := rapid.IntRange(i, min(len(rs), i+3)).Draw(f.T, "subto")
	return string(rs[i:j])
}

// Val draws a value of the given kind. ctx carries the first string argument
// so that "sub" can be related to it.
func (f FnGen) Val(kind string, subject string) jv.Val {
	t := f.T
	switch kind {
	case "num":
		return Num(t)
	case "int", "count":
		if Chance(t, "nearint", 1, 2) {
			n := len([]rune(subject))
			return jv.VInt(int64(rapid.IntRange(-2, n+2).Draw(t, "near")))
		}
		return jv.VNumText(Pick(t, "count", countTexts))
	case "str":
		if rs := []rune(subject); len(rs) > 0 && Chance(t, "lowbyte", 1, 6) {
			// the ASCII characters that the first and last character of the
			// subject turn into when only their low byte (or low 7 bits) is
			// kept: a table indexed by byte(r) confuses them
			first, last := rs[0], rs[len(rs)-1]
			return jv.VStr(string([]rune{first & 0xff & 0x7f, last & 0x7f, ' '}))
		}
		if Chance(t, "subj", 1, 2) {
			return jv.VStr(f.subject())
		}
		return jv.VStr(Str(t))
	case "padded":
		ws := []string{"", " ", "  ", "\t", "\n ", "　", " ", "x", "xy", "š", "č", "中", "а", "\u0120", "\u2020", "\u0109", "\U00010020", "ń",
			// every kind of white space, alone and in runs that end in an ASCII one
			"\v", "\f", "\r", "\u0085", "\u2028", "\u2029", "\u00a0", "\u1680", "\u2003", "\u202f", "\u205f", " \f ", "\v\t", "\f\n", "\u2003 ", "\r\n\v", "\t\f\t"}
		return jv.VStr(Pick(t, "lws", ws) + Pick(t, "core", []string{"a", "a b", "", "é", "xax", "subject string"}) + Pick(t, "rws", ws))
	case "str1":
		return jv.VStr(Pick(t, "pad", []string{"-", " ", "0", "é", "日", "😀", "", "ab", "--", "éé", "́"}))
	case "sub":
		switch rapid.IntRange(0, 6).Draw(t, "subkind") {
		case 0:
			return jv.VStr(Str(t))
		case 1:
			return jv.VStr("")
		case 2:
			// longer than the subject, or absent from it and several bytes long
			return jv.VStr(Pick(t, "longsub", []string{subject + "x", "x" + subject, subject + subject, " - ", "::", ".tar.gz", "é😀", "😀😀😀", "--", ", "}))
		}
		return jv.VStr(f.substringOf(subject))
	case "arr-num":
		n := rapid.IntRange(0, 5).Draw(t, "n")
		a := make([]jv.Val, n)
		close := Chance(t, "closenums", 1, 8)
		for i := range a {
			if close {
				a[i] = jv.VNumText(Pick(t, "closenum", Pick(t, "closegroup", CloseNums)))
			} else {
				a[i] = Num(t)
			}
		}
		if n > 0 && Chance(t, "spoil", 1, 8) {
			a[rapid.IntRange(0, n-1).Draw(t, "at")] = Scalar(t)
		}
		return jv.VArr(a)
	case "arr-str":
		n := rapid.IntRange(0, 5).Draw(t, "n")
		a := make([]jv.Val, n)
		for i := range a {
			a[i] = jv.VStr(Str(t))
		}
		if n > 0 && Chance(t, "spoil", 1, 8) {
			a[rapid.IntRange(0, n-1).Draw(t, "at")] = Scalar(t)
		}
		return jv.VArr(a)
	case "arr-homog":
		if rapid.Bool().Draw(t, "nums") {
			return f.Val("arr-num", subject)
		}
		return f.Val("arr-str", subject)
	case "arr-rec":
		n := rapid.IntRange(0, 14).Draw(t, "n")
		if Chance(t, "long", 1, 6) {
			n = rapid.IntRange(13, 30).Draw(t, "nlong")
		}
		kk := rapid.IntRange(0, 10).Draw(t, "keykind")
		switch {
		case kk < 4:
			kk = 0
		case kk < 8:
			kk = 1
		case kk == 8:
			kk = 2
		case kk == 9:
			kk = 3
		default:
			kk = 4
		}
		a := make([]jv.Val, n)
		for i := range a {
			k := kk
			if Chance(t, "oddkey", 1, 20) {
				k = 2
			}
			a[i] = f.record(i, k)
		}
		return jv.VArr(a)
	case "arr-pairs":
		n := rapid.IntRange(0, 4).Draw(t, "n")
		a := make([]jv.Val, n)
		for i := range a {
			switch rapid.IntRange(0, 11).Draw(t, "pairkind") {
			case 0:
				a[i] = jv.VArr([]jv.Val{jv.VStr(Key(t))})
			case 1:
				a[i] = jv.VArr([]jv.Val{jv.VStr(Key(t)), Scalar(t), Scalar(t)})
			case 2:
				a[i] = jv.VArr([]jv.Val{Scalar(t), Scalar(t)})
			case 3:
				a[i] = Scalar(t)
			case 4:
				a[i] = jv.VArr([]jv.Val{})
			default:
				a[i] = jv.VArr([]jv.Val{jv.VStr(Key(t)), Value(t, DocCfg{MaxDepth: 2, MaxFan: 2}, 1)})
			}
		}
		return jv.VArr(a)
	case "arr":
		return Array(t, DocCfg{MaxDepth: 2, MaxFan: 4}, 0)
	case "obj":
		return Object(t, DocCfg{MaxDepth: 2, MaxFan: 4}, 0)
	case "arr|str":
		if rapid.Bool().Draw(t, "isarr") {
			return Array(t, DocCfg{MaxDepth: 2, MaxFan: 4}, 0)
		}
		return jv.VStr(f.subject())
	case "sized":
		switch rapid.IntRange(0, 2).Draw(t, "sized") {
		case 0:
			return jv.VStr(Str(t))
		case 1:
			return Array(t, DocCfg{MaxDepth: 2, MaxFan: 4}, 0)
		}
		return Object(t, DocCfg{MaxDepth: 2, MaxFan: 4}, 0)
	case "numstr":
		if Chance(t, "isstr", 3, 4) {
			return jv.VStr(Pick(t, "numstr", numStrs()))
		}
		return Value(t, DocCfg{MaxDepth: 2, MaxFan: 3}, 0)
	}
	return Value(t, DocCfg{MaxDepth: 2, MaxFan: 3}, 0)
}

// RefExpr draws the body of an expression reference for records {k, id}.
func (f FnGen) RefExpr() ast.Expr {
	t := f.T
	tags := ast.F("t")
	self := ast.Ref(ast.Cur())
	first := ast.Step{Kind: ast.SIndex, Index: 0}
	switch rapid.IntRange(0, 19).Draw(t, "refkind") {
	case 12: // key expressions that use a function with an expression reference again
		return ast.Call("sort_by", ast.A(tags), self).With(first)
	case 13:
		return ast.Call(Pick(t, "reentrant", []string{"max_by", "min_by"}), ast.A(tags), self)
	case 14:
		return ast.Call("map", self, ast.A(tags)).With(ast.Step{Kind: ast.SIndex, Index: -1})
	case 15:
		return ast.Call("join", ast.A(ast.RawS("")), ast.A(ast.Call("sort_by", ast.A(ast.Call("map", ast.Ref(ast.Call("to_string", ast.A(ast.Cur()))), ast.A(tags))), self)))
	case 16:
		return ast.Call("length", ast.A(ast.Call("group_by", ast.A(tags), ast.Ref(ast.Call("to_string", ast.A(ast.Cur()))))))
	case 17:
		return ast.Call(Pick(t, "plainfn", []string{"sort", "reverse"}), ast.A(tags)).With(first)
	case 0:
		return ast.F("id")
	case 1:
		return ast.Cur()
	case 2:
		return ast.Call("to_string", ast.A(ast.F("k")))
	case 3:
		return ast.F("k").With(ast.Step{Kind: ast.SField, Name: "x"})
	case 4:
		return ast.Call("length", ast.A(ast.Cur()))
	case 5:
		return ast.Var("v")
	case 6:
		return ast.Lit(Scalar(t))
	case 7:
		return ast.Call("not_null", ast.A(ast.F("k")), ast.A(ast.Var("v")))
	}
	return ast.F("k")
}

// Supply turns an argument value into an expression in one of three ways:
// literal, field of the document (recorded in members), or computed.
func (f FnGen) Supply(v jv.Val, pos int, members *[]jv.Member) ast.Expr {
	t := f.T
	switch rapid.IntRange(0, 5).Draw(t, "supply") {
	case 0, 1:
		name := "p" + strconv.Itoa(pos)
		*members = append(*members, jv.Member{K: name, V: v})
		return ast.F(name)
	case 2:
		// result of another call
		name := "p" + strconv.Itoa(pos)
		*members = append(*members, jv.Member{K: name, V: v})
		if v.K == jv.Null {
			return ast.F(name)
		}
		return ast.Call("not_null", ast.A(ast.F("missing")), ast.A(ast.F(name)))
	case 3:
		if v.K == jv.Num && v.R.IsInt() && model.NumOK(v.R) && Chance(t, "computed", 1, 2) {
			// computed decimal: (v+1) - 1, or v*2/2
			one := jv.VInt(1)
			return ast.Paren(ast.Bin("-", ast.Paren(ast.Bin("+", ast.Lit(v), ast.Lit(one))), ast.Lit(one)))
		}
	}
	if v.K == jv.Str && Chance(t, "raw", 1, 2) {
		return ast.RawS(v.S)
	}
	return ast.Lit(v)
}

func min(a, b int) int {
	if a < b {
		return a
	}
	return b
}
