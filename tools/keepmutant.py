#!/usr/bin/env python3
"""keepmutant.py <worktree> <seeded-id> <property> <caught-by (comma list)> <needs...>
Confirms a seeded change independently (demo fails with the change, passes
without it, existing suite passes with it) and stores it under
/verif/seeded/<seeded-id>/ (patch.diff, demo, meta.json)."""
import json, os, subprocess, sys, shutil
wt, sid, prop, caught = sys.argv[1:5]
needs = " ".join(sys.argv[5:])
env = dict(os.environ, GOFLAGS="-mod=mod", GOPROXY="off", GOTOOLCHAIN="auto")
def run(cmd):
    p = subprocess.run(cmd, cwd=wt, env=env, shell=True, stdout=subprocess.PIPE, stderr=subprocess.STDOUT, text=True)
    return p.returncode, p.stdout
ran = []
patch = subprocess.check_output("git diff -- . ':!mutant_demo_test.go' ':!MUTANT.md'", cwd=wt, shell=True, text=True)
if not patch.strip():
    sys.exit("no source change in " + wt)
rc_build, out = run("go build ./... && go vet ./... >/dev/null 2>&1; go build ./...")
ran.append({"cmd": "go build ./...", "rc": rc_build})
rc_suite, out = run("go test -count=1 -skip TestMutantDemo ./...")
ran.append({"cmd": "go test -count=1 -skip TestMutantDemo ./... (with the change)", "rc": rc_suite, "tail": out[-300:]})
rc_with, out_with = run("go test -count=1 -run TestMutantDemo . ")
ran.append({"cmd": "go test -count=1 -run TestMutantDemo . (with the change)", "rc": rc_with, "tail": out_with[-600:]})
# (no git stash: the stash is shared between worktrees)
open("/tmp/keepmutant-%s.patch" % sid, "w").write(patch)
run("git apply -R /tmp/keepmutant-%s.patch" % sid)
rc_without, out_without = run("go test -count=1 -run TestMutantDemo . ")
rc_restore, _ = run("git apply /tmp/keepmutant-%s.patch" % sid)
os.remove("/tmp/keepmutant-%s.patch" % sid)
ran.append({"cmd": "go test -count=1 -run TestMutantDemo . (change stashed)", "rc": rc_without, "tail": out_without[-300:]})
ok = rc_build == 0 and rc_suite == 0 and rc_with != 0 and rc_without == 0
print("build", rc_build, "suite", rc_suite, "demo-with", rc_with, "demo-without", rc_without, "=>", "CONFIRMED" if ok else "NOT CONFIRMED")
if not ok:
    sys.exit(1)
d = os.path.join("/verif/seeded", sid)
os.makedirs(d, exist_ok=True)
open(os.path.join(d, "patch.diff"), "w").write(patch)
shutil.copy(os.path.join(wt, "mutant_demo_test.go"), os.path.join(d, "mutant_demo_test.go"))
if os.path.exists(os.path.join(wt, "MUTANT.md")):
    shutil.copy(os.path.join(wt, "MUTANT.md"), os.path.join(d, "MUTANT.md"))
base = subprocess.check_output("git rev-parse --short HEAD", cwd=wt, shell=True, text=True).strip()
meta = {"id": sid, "property": prop, "breaks": prop, "base_commit": base, "needs_to_manifest": needs,
        "caught_by_quick_checks": [c for c in caught.split(",") if c],
        "author": "independent sub-agent given only the property text and a scratch worktree",
        "confirmed": ran,
        "how_to_run": "git -C /repo apply /verif/seeded/%s/patch.diff && (cd /verif && ./check %s --tier quick); git -C /repo checkout -- ." % (sid, prop)}
json.dump(meta, open(os.path.join(d, "meta.json"), "w"), indent=1)
print("stored", d)
