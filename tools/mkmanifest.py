#!/usr/bin/env python3
"""Regenerates /verif/MANIFEST.json from tools/manifest_table.json and budgets.json."""
import json, os
ROOT = os.path.dirname(os.path.dirname(os.path.abspath(__file__)))
table = json.load(open(os.path.join(ROOT, "tools", "manifest_table.json")))
budgets = json.load(open(os.path.join(ROOT, "budgets.json")))
props = [json.loads(l) for l in open(os.path.join(ROOT, "properties.jsonl"))]
checks, na = [], []
for p in props:
    pid = p["id"]
    t = table.get(pid)
    if t and pid in budgets and not t.get("not_applicable"):
        checks.append({
            "property_id": pid,
            "quick_cmd": "./check %s --tier quick" % pid,
            "thorough_cmd": "./check %s --tier thorough" % pid,
            "evidence_file": "/verif/evidence/%s.json" % pid,
            "replay_cmd_template": "./check %s --replay {path}" % pid,
            "engine": t["engine"],
            "technique": t["technique"],
            "level_claimed": {"category": "exploration", "text": t["text"], "design_ref": t.get("design_ref", "DESIGN.md section 4, " + pid)},
            "level_note": t["note"],
        })
    else:
        na.append({"property_id": pid, "reason": (t or {}).get("not_applicable", "check not built yet (work in progress in this session)")})
m = {
    "version": 1,
    "setup_cmd": "./check --setup",
    "hooks": {
        "guard": "verif",
        "enable": "none needed: every check drives the public API only (plus a read-only reflect walk over the unexported Expression.node); the harness module builds /repo's working tree through a replace directive",
        "baseline_off_cmd": "cd /repo && GOFLAGS=-mod=mod GOPROXY=off GOTOOLCHAIN=auto go test -json -vet=off -count=1 -timeout 25m ./...",
        "source_commits": [],
        "add_only": True,
    },
    "engines": [
        {"name": "rapid-props", "path": "harness/props", "serves_properties": [c["property_id"] for c in checks],
         "kind_free_text": "pgregory.net/rapid v1.3.0 properties (generators, shrinking) sharded over 16 processes by ./check; oracle = reference model / metamorphic relation / invariant written in harness/{model,ast,jv}"},
    ],
    "checks": checks,
    "not_applicable": na,
    "notes": "All checks are property-based tests / fuzzing over generated inputs with explicit oracles; see DESIGN.md. KNOWN_FINDINGS.txt lists genuine defects (open findings and fixed ones with their regression replays under findings/).",
}
json.dump(m, open(os.path.join(ROOT, "MANIFEST.json"), "w"), indent=1)
print("checks:", [c["property_id"] for c in checks], "n/a:", [x["property_id"] for x in na])
