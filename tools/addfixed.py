#!/usr/bin/env python3
"""addfixed.py <replay.json> <property> <name> <what failed>
Copies the replay into findings/fixed/<property>-<name>.json and records a
'fixed:' line (with /repo's HEAD commit) in KNOWN_FINDINGS.txt."""
import sys, os, shutil, subprocess
ROOT = os.path.dirname(os.path.dirname(os.path.abspath(__file__)))
src, prop, name, text = sys.argv[1:5]
commit = subprocess.check_output(["git", "-C", "/repo", "rev-parse", "--short", "HEAD"], text=True).strip()
d = os.path.join(ROOT, "findings", "fixed")
os.makedirs(d, exist_ok=True)
dst = os.path.join(d, "%s-%s.json" % (prop, name))
shutil.copy(src, dst)
with open(os.path.join(ROOT, "KNOWN_FINDINGS.txt"), "a") as f:
    f.write("fixed: property=%s %s %s (regression replay findings/fixed/%s-%s.json)\n" % (prop, commit, text, prop, name))
print("recorded", dst, commit)
