#!/bin/sh
# seeded.sh [tier] [ids...]: applies every seeded change (in a scratch worktree
# of /repo outside /repo and /verif, removed afterwards) and runs the quick
# checks of the property it breaks plus the checks listed as catching it.
tier=${1:-quick}; [ $# -gt 0 ] && shift
ids="$@"; [ -z "$ids" ] && ids=$(cd /verif/seeded && ls -d */ | tr -d /)
for id in $ids; do
  if grep -q '"superseded"' /verif/seeded/$id/meta.json 2>/dev/null; then echo "$id: superseded (see meta.json), skipped"; continue; fi
  d=/tmp/seedrun/$id
  rm -rf $d; git -C /repo worktree prune
  git -C /repo worktree add -q --detach $d HEAD || continue
  if ! git -C $d apply /verif/seeded/$id/patch.diff 2>/dev/null; then echo "$id: patch does not apply to HEAD"; git -C /repo worktree remove --force $d; continue; fi
  props=$(python3 -c "import json;m=json.load(open('/verif/seeded/$id/meta.json'));print(' '.join(dict.fromkeys([m['property']]+m['caught_by_quick_checks'])))")
  /verif/tools/trymutant.sh $d $tier $props | cut -c1-160
  git -C /repo worktree remove --force $d
  rm -rf /tmp/mutout/$id /verif/.cache/*$(python3 -c "import hashlib;print(hashlib.sha1('$d'.encode()).hexdigest()[:10])")*
done
