#!/bin/sh
# trymutant.sh <worktree-dir> <tier> <property-ids...>
# Builds the checks against the (modified) worktree instead of /repo and runs
# the given properties' checks. Prints one line per property.
dir=$1; tier=$2; shift 2
cd /verif
n=$(basename $dir)
mkdir -p /tmp/mutout/$n/evidence /tmp/mutout/$n/replays
export VERIF_EVIDENCE_DIR=/tmp/mutout/$n/evidence VERIF_REPLAYS_DIR=/tmp/mutout/$n/replays
for p in "$@"; do
  s=$(date +%s)
  VERIF_REPO=$dir VERIF_SEED=${VERIF_SEED:-1} timeout 3000 ./check $p --tier $tier > /tmp/mutrun-$(basename $dir)-$p.out 2> /tmp/mutrun-$(basename $dir)-$p.err; rc=$?
  e=$(date +%s)
  echo "$(basename $dir) $p rc=$rc $((e-s))s viol=$(grep -c '^VIOLATION' /tmp/mutrun-$(basename $dir)-$p.out) :: $(grep -v '^VIOLATION\|^KNOWN' /tmp/mutrun-$(basename $dir)-$p.out | head -1 | cut -c1-220)"
done
