#!/bin/sh
# For every "fixed:" entry: the regression replay must FAIL on the commit before
# the fix and PASS on /repo's HEAD.
cd /verif
grep '^fixed:' KNOWN_FINDINGS.txt | while read -r line; do
  prop=$(echo "$line" | sed -n 's/^fixed: property=\([^ ]*\) .*/\1/p')
  commit=$(echo "$line" | awk '{print $3}')
  rp=$(echo "$line" | sed -n 's/.*regression replay \(findings\/fixed\/[^)]*\)).*/\1/p')
  d=/tmp/fixver/$commit
  if [ ! -d $d ]; then git -C /repo worktree add -q --detach $d ${commit}^ 2>/dev/null || { echo "$rp: cannot check out ${commit}^"; continue; }; fi
  before=$(VERIF_REPO=$d ./check $prop --replay $rp 2>&1 | grep -c '^VIOLATION')
  after=$(./check $prop --replay $rp 2>&1 | grep -c '^REPLAY-OK')
  echo "$rp commit=$commit fails-before-fix=$before passes-now=$after"
done
for d in /tmp/fixver/*; do git -C /repo worktree remove --force $d 2>/dev/null; done
rm -rf /tmp/fixver; rm -f /verif/.cache/props-??????????.test /verif/.cache/alt-*
