#!/usr/bin/env python3
"""Regenerates the generated tables of DESIGN.md (between BEGIN/END markers):
 cost   -- from budgets.json and evidence/*.json
 seeded -- from seeded/*/meta.json and seeded/NOTES.json"""
import json, os, re
ROOT = os.path.dirname(os.path.dirname(os.path.abspath(__file__)))
b = json.load(open(os.path.join(ROOT, "budgets.json")))

def cost():
    out = ["| ID | quick cases (rapid) | quick wall | thorough cases (rapid) | other parts |", "|---|---|---|---|---|"]
    for p in sorted(b):
        q = t = 0
        other = []
        for name, tb in b[p]["tests"].items():
            kind = tb.get("kind", "rapid")
            if kind == "rapid":
                q += tb.get("quick", 0); t += tb.get("thorough", 0)
            elif kind == "enum":
                other.append("%s (enumeration, %s)" % (name, "both tiers" if tb.get("quick", 1) else "thorough only"))
            elif kind == "fuzz":
                other.append("%s native fuzz %s (thorough)" % (name, tb.get("fuzztime_thorough", "?")))
        wall = ""
        try:
            ev = json.load(open(os.path.join(ROOT, "evidence", p + ".json")))
            wall = "%s s" % ev.get("wall_s", "")
        except Exception:
            pass
        out.append("| %s | %s | %s | %s | %s |" % (p, format(q, ","), wall, format(t, ","), "; ".join(other)))
    return "\n".join(out)

def seeded():
    notes = json.load(open(os.path.join(ROOT, "seeded", "NOTES.json")))
    out = ["| change | breaks | needs, to show | caught by (quick) | note |", "|---|---|---|---|---|"]
    for d in sorted(os.listdir(os.path.join(ROOT, "seeded"))):
        mp = os.path.join(ROOT, "seeded", d, "meta.json")
        if not os.path.exists(mp):
            continue
        m = json.load(open(mp))
        note = notes.get(d, "")
        if m.get("superseded"):
            note = (note + " " if note else "") + "SUPERSEDED: " + m["superseded"]
        out.append("| %s | %s | %s | %s | %s |" % (d, m["property"], m["needs_to_manifest"].replace("|", "\\|"), " ".join(m["caught_by_quick_checks"]), note))
    return "\n".join(out)

def seededsummary():
    notes = json.load(open(os.path.join(ROOT, "seeded", "NOTES.json")))
    ids = [d for d in sorted(os.listdir(os.path.join(ROOT, "seeded"))) if os.path.exists(os.path.join(ROOT, "seeded", d, "meta.json"))]
    missed = [d for d in ids if d in notes]
    per = {}
    for d in ids:
        per[d[-1]] = per.get(d[-1], 0) + 1
    mper = {}
    for d in missed:
        mper[d[-1]] = mper.get(d[-1], 0) + 1
    rounds = ", ".join("round %s: %d of %d" % (r, mper.get(r, 0), per[r]) for r in sorted(per))
    return ("Result: all %d kept changes are reported by the **quick** tier of the check of the\n"
            "property they were seeded for (a few by neighbouring properties as well; C15g and\n"
            "C15i only by the neighbouring property that owns the mechanism, C06 and C07), in\n"
            "most cases by all sixteen shards. %d of them were missed, or caught by a single\n"
            "shard only, when first tried (%s)." % (len(ids), len(missed), rounds))

p = os.path.join(ROOT, "DESIGN.md")
s = open(p).read()
for name, f in (("cost", cost), ("seeded", seeded), ("seededsummary", seededsummary)):
    s = re.sub(r"(<!-- BEGIN:%s -->\n).*?(\n<!-- END:%s -->)" % (name, name), lambda m: m.group(1) + f() + m.group(2), s, flags=re.S)
open(p, "w").write(s)
