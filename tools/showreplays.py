#!/usr/bin/env python3
import json,sys,glob
def plain(n):
    t=n['t']
    if t=='null': return None
    if t=='bool': return n.get('b',False)
    if t=='string': return n.get('s','')
    if t=='array': return [plain(x) for x in n.get('a',[])]
    if t=='object': return {k:plain(v) for k,v in zip(n.get('k',[]),n.get('a',[]))}
    return t+':'+n.get('s','')
for f in sorted(glob.glob(sys.argv[1] if len(sys.argv)>1 else '/verif/replays/*.json')):
    r=json.load(open(f))
    parts=[]
    for c in r['calls']:
        parts.append('%s %r on %s' % (c['api'], c['expr'][:140], json.dumps(plain(c['doc']),ensure_ascii=False)[:120] if c.get('doc') else '-'))
    print(f.split('/')[-1], '|', ' ;; '.join(parts), '=>', r['message'][:160])
