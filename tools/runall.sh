#!/bin/sh
# runall.sh <tier> [seed]: runs every check, prints one line each
tier=${1:-quick}; seed=${2:-1}
cd /verif
for p in C01 C02 C03 C04 C05 C06 C07 C08 C09 C10 C11 C12 C13 C14 C15 C16 C17 C18 C19 C20; do
  s=$(date +%s)
  VERIF_SEED=$seed ./check $p --tier $tier > /tmp/runall-$p.out 2> /tmp/runall-$p.err; rc=$?
  e=$(date +%s)
  echo "$p rc=$rc $((e-s))s $(grep -c '^VIOLATION' /tmp/runall-$p.out) violations, $(grep -c '^KNOWN-FINDING' /tmp/runall-$p.out) known; $(tail -1 /tmp/runall-$p.err | cut -c1-120)"
done
